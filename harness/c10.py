"""C10 — a metamodel survives a trip through an .ecore file (DESIGN.md section 4)."""
import glob
import os
import shutil
import tempfile
from . import common, models


def extract(ctx):
    from . import extract as ex
    rows, changed = ex.gen_ecore_table()
    ctx.extra['ecore_table_rows'] = len(rows)
    ctx.extra['ecore_table_regenerated'] = changed
    ctx.table_obligations = 1


def gen_metamodel(rng, k):
    """a metamodel using every construct of the statement, as real Ecore objects"""
    from pyecore import ecore as E
    root = E.EPackage(f'm{k}', f'http://verif/m{k}', f'm{k}')
    pkgs = [root]
    # package trees: none, one level, nested (root > sub > deep), siblings, and a nested package named like a first-level
    # one (root.b and root.sub.b) — name-based fragments walk this tree
    shape = rng.choice(['flat', 'one', 'one', 'nested', 'nested', 'siblings', 'same-name'])
    if shape != 'flat':
        sub = E.EPackage('sub', f'http://verif/m{k}/sub', 'sub')
        root.eSubpackages.append(sub)
        pkgs.append(sub)
        if shape in ('nested', 'same-name'):
            deep = E.EPackage('b' if shape == 'same-name' else 'deep', f'http://verif/m{k}/sub/deep', 'deep')
            sub.eSubpackages.append(deep)
            pkgs.append(deep)
            if rng.random() < .4:
                deeper = E.EPackage('deeper', f'http://verif/m{k}/sub/deep/deeper', 'deeper')
                deep.eSubpackages.append(deeper)
                pkgs.append(deeper)
        if shape in ('siblings', 'same-name'):
            sib = E.EPackage('b', f'http://verif/m{k}/b', 'b')
            root.eSubpackages.append(sib)
            pkgs.append(sib)
    enums, dts, classes = [], [], []
    styles = {}

    def add(coll, x):
        """every way the API offers to put an element into a collection; one way per collection, so that some collections
        are filled by insert() only"""
        st = styles.setdefault(id(coll), rng.choice(['append', 'append', 'insert-end', 'insert-front-then-fix', 'extend']))
        if st == 'append':
            coll.append(x)
        elif st == 'insert-end':
            coll.insert(len(coll), x)
        elif st == 'insert-front-then-fix':
            coll.insert(len(coll), x) if len(coll) else coll.insert(0, x)
        else:
            coll.extend([x])
    for i in range(rng.choice([0, 1, 2])):
        en = E.EEnum(f'En{i}', literals=[f'L{i}{j}' for j in range(rng.randint(1, 4))])
        add(rng.choice(pkgs).eClassifiers, en); enums.append(en)
    for i in range(rng.choice([0, 1])):
        dt = E.EDataType(f'DT{i}', instanceClassName=rng.choice(['java.lang.Integer', 'java.lang.String', 'java.util.List', 'boolean']))
        add(rng.choice(pkgs).eClassifiers, dt); dts.append(dt)
    n = rng.randint(2, 6)
    for i in range(n):
        c = E.EClass(f'K{i}', abstract=rng.random() < .2)
        if rng.random() < .15:
            c.interface = True
        add(rng.choice(pkgs).eClassifiers, c); classes.append(c)
    for i in range(1, n):
        for j in sorted(rng.sample(range(i), rng.randint(0, min(2, i)))):
            add(classes[i].eSuperTypes, classes[j])
    fid = [0]

    def nm(p='f'):
        fid[0] += 1
        return f'{p}{fid[0]}'
    atypes = [E.EString, E.EInt, E.EBoolean, E.EDouble, E.EDate, E.ELong] + enums + dts
    for c in classes:
        for _ in range(rng.randint(0, 3)):
            lo, up = rng.choice([(0, 1), (1, 1), (0, -1), (1, -1), (2, 5), (0, -2)])     # (-2: 'unspecified', many-valued like -1)
            a = E.EAttribute(nm(), rng.choice(atypes), lower=lo, upper=up, ordered=rng.random() < .8, unique=rng.random() < .7,
                             iD=rng.random() < .1, changeable=rng.random() < .9, derived=False)
            if rng.random() < .2 and a.eType in (E.EInt, E.EString):
                a.defaultValueLiteral = '7' if a.eType is E.EInt else 'dflt'
            add(c.eStructuralFeatures, a)
        for _ in range(rng.randint(0, 2)):
            lo, up = rng.choice([(0, 1), (1, 1), (0, -1), (0, 3), (0, -2)])
            r = E.EReference(nm(), rng.choice(classes), lower=lo, upper=up, ordered=rng.random() < .8, unique=True,
                             containment=rng.random() < .4)
            add(c.eStructuralFeatures, r)
        kws = ['import', 'class', 'from', 'assert', 'global']
        for _ in range(rng.choice([0, 0, 1, 2])):
            # (an operation may be named like a Python keyword — `import`, `class`: the method is then `import_`)
            kw = rng.choice(kws)
            opname = kw if rng.random() < .25 and all(o.name != kw for o in c.eOperations) else nm('op')
            op = E.EOperation(opname, eType=rng.choice([None, E.EString, E.EInt] + classes))
            npar = rng.randint(0, 3)
            nreq = rng.randint(0, npar)           # Python wants the required parameters first
            for q in range(npar):
                add(op.eParameters, E.EParameter(nm('p'), eType=rng.choice([E.EString, E.EInt] + classes),
                                                 required=q < nreq))
            add(c.eOperations, op)
        if rng.random() < .3:
            an = E.EAnnotation(source=f'http://verif/annot{fid[0]}')
            an.details['documentation'] = rng.choice(['some doc', 'x < y & z', ''])
            an.details['k'] = rng.choice(['v', 'v', None])      # an entry may come without a value (`<details key="k"/>`)
            c.eAnnotations.append(an)
    # opposite pairs
    for _ in range(rng.choice([0, 1, 2])):
        a, b = rng.choice(classes), rng.choice(classes)
        f = E.EReference(nm(), b, upper=rng.choice([1, -1]))
        g = E.EReference(nm(), a, upper=rng.choice([1, -1]), eOpposite=f)
        a.eStructuralFeatures.append(f); b.eStructuralFeatures.append(g)
    if rng.random() < .3:
        an = E.EAnnotation(source='http://verif/pkg')
        an.details['note'] = 'package level'
        root.eAnnotations.append(an)
    return root


def signature(pkg):
    """structural signature of a package tree: every construct the statement lists"""
    from pyecore import ecore as E
    out = []

    def tname(t):
        """a classifier by the packages it sits in and its name (two classes of one name in two packages differ)"""
        if t is None:
            return None
        t = getattr(t, 'eClass', t) if isinstance(t, type) else t
        names = [getattr(t, 'name', str(t))]
        p = getattr(t, 'ePackage', None)
        while p is not None and hasattr(p, 'name') and getattr(p, 'nsURI', None) != 'http://www.eclipse.org/emf/2002/Ecore':
            names.append(p.name)
            p = p.eSuperPackage if hasattr(p, 'eSuperPackage') else None
        return '/'.join(reversed(names))

    def ann(e):
        return sorted((a.source, sorted(a.details.items(), key=lambda kv: (kv[0], kv[1] is None, kv[1] or ''))) for a in e.eAnnotations)

    def walk(p, path):
        here = path + '/' + p.name
        out.append(('package', here, p.nsURI, p.nsPrefix, ann(p)))
        for c in sorted(p.eClassifiers, key=lambda c: c.name):
            if isinstance(c, E.EClass):
                out.append(('class', here, c.name, bool(c.abstract), bool(c.interface), [tname(s) for s in c.eSuperTypes], ann(c)))
                for f in c.eStructuralFeatures:
                    common_ = (f.name, tname(f.eType), f.lowerBound, f.upperBound, bool(f.many), bool(f.ordered), bool(f.unique),
                               bool(f.changeable), bool(f.derived), bool(f.transient), bool(f.volatile))
                    if isinstance(f, E.EAttribute):
                        out.append(('attribute', c.name) + common_ + (bool(f.iD), f.defaultValueLiteral))
                    else:
                        out.append(('reference', c.name) + common_ + (bool(f.containment), f.eOpposite.name if f.eOpposite else None,
                                                                       f.eOpposite.eContainingClass.name if f.eOpposite else None))
                for op in c.eOperations:
                    out.append(('operation', c.name, op.name, tname(op.eType),
                                [(q.name, tname(q.eType), bool(q.required)) for q in op.eParameters]))
                    # … and the method instances get for it (the declared operation is callable as declared)
                    if not c.abstract and not c.interface:
                        import inspect
                        try:
                            out.append(('method', c.name, op.name, str(inspect.signature(getattr(c(), op.normalized_name())))))
                        except Exception as e:
                            out.append(('method', c.name, op.name, 'unavailable: ' + type(e).__name__))
            elif isinstance(c, E.EEnum):
                out.append(('enum', here, c.name, [(l.name, l.value) for l in c.eLiterals]))
            else:
                out.append(('datatype', here, c.name, c.instanceClassName))
        for s in sorted(p.eSubpackages, key=lambda s: s.name):
            walk(s, here)
    walk(pkg, '')
    return out


def instantiable(pkg):
    """every concrete class of the reloaded metamodel can be instantiated and its features used"""
    from pyecore import ecore as E
    for c in pkg.eAllContents():
        if isinstance(c, E.EClass) and not c.abstract and not c.interface:
            o = c()
            for f in c.eAllStructuralFeatures():
                _ = o.eGet(f)
    return None


def roundtrip_pkg(pkg, tmp, name, defaults=False):
    from pyecore.resources import ResourceSet, URI
    from pyecore.resources.xmi import XMIOptions
    path = os.path.join(tmp, name)
    rs = ResourceSet()
    r = rs.create_resource(URI(path))
    r.append(pkg)
    if defaults:
        # every feature of every metamodel element written out, unset ones included (`<… xsi:nil="true"/>` for None)
        r.save(options={XMIOptions.SERIALIZE_DEFAULT_VALUES: True})
    else:
        r.save()
    rs2 = ResourceSet()
    return rs2.get_resource(URI(path)).contents[0], path


def run_case(ctx, h, tmp):
    rng = common.sub_rng(ctx.seed, 'C10', h)
    pkg = gen_metamodel(rng, h)
    before = signature(pkg)
    ctx.evaluations += 1
    try:
        back, path = roundtrip_pkg(pkg, tmp, f'm{h}.ecore', defaults=h % 3 == 1)
        ctx.count('save/serialize-default-values' if h % 3 == 1 else 'save/plain')
        after = signature(back)
    except Exception as e:
        import traceback
        tb = [l.strip() for l in traceback.format_exc().splitlines() if 'pyecore' in l]
        ctx.violate({'clause': 'roundtrip-raised', 'error': type(e).__name__},
                    f'.ecore save/load raised {type(e).__name__}: {str(e)[:100]} at {tb[-1] if tb else ""}', {'case': h})
        return
    ctx.nontriv(h)
    if before != after:
        d = next(((a, b) for a, b in zip(before, after) if a != b), (len(before), len(after)))
        construct = d[0][0] if isinstance(d[0], tuple) else 'count'
        ctx.violate({'clause': 'signature-differs', 'construct': construct}, f'reloaded metamodel differs: {d[0]!r} -> {d[1]!r}', {'case': h})
        return
    try:
        instantiable(back)
    except Exception as e:
        ctx.violate({'clause': 'not-instantiable'}, f'a reloaded class cannot be instantiated/used: {type(e).__name__}: {e}', {'case': h})
    if h < 2:
        ctx.sample({'case': h, 'constructs': len(before), 'document_head': open(path).read()[:400]})


def restructure_pkg(rng, pkg):
    """rename a subpackage or a class, move a class into another package: what a metamodel under development goes through
    between two saves"""
    from pyecore import ecore as E
    done = []
    for _ in range(rng.randint(1, 2)):
        pkgs = [pkg] + [p for p in pkg.eAllContents() if isinstance(p, E.EPackage)]
        classes = [c for p in pkgs for c in p.eClassifiers if isinstance(c, E.EClass)]
        k = rng.random()
        subs = [p for p in pkgs if p is not pkg]
        if k < .4 and subs:
            p = rng.choice(subs)
            new = p.name + 'R'
            if all(q.name != new for q in p.eSuperPackage.eSubpackages):
                p.name = new
                done.append(f'subpackage renamed to {new}')
        elif k < .75 and classes and len(pkgs) > 1:
            c = rng.choice(classes)
            home = c.ePackage
            targets = [p for p in pkgs if p is not home and all(x.name != c.name for x in p.eClassifiers)]
            if targets:
                t = rng.choice(targets)
                t.eClassifiers.append(c)
                done.append(f'class {c.name} moved to package {t.name}')
                if rng.random() < .5:
                    # … and another classifier takes the name it had in its old package
                    n = E.EClass(c.name) if rng.random() < .6 else E.EDataType(c.name, instanceClassName='int')
                    home.eClassifiers.append(n)
                    done.append(f'a new {type(n).__name__} named {c.name} added to package {home.name}')
        elif k < .87 and classes:
            refs = [f for c in classes for f in c.eStructuralFeatures if isinstance(f, E.EReference) and f.eOpposite is not None]
            if refs:
                f = rng.choice(refs)
                g = f.eOpposite
                f.eOpposite = None
                done.append(f'eOpposite of {f.eContainingClass.name}.{f.name} (was {g.name}) cleared')
        elif classes:
            c = rng.choice(classes)
            new = c.name + 'R'
            if all(x.name != new for x in c.ePackage.eClassifiers):
                was = c.name
                c.name = new
                done.append(f'class renamed to {new}')
                if rng.random() < .5:
                    # … and the name it had goes to another classifier of the same package: an existing one, or a new one
                    others = [x for x in c.ePackage.eClassifiers if x is not c]
                    if others and rng.random() < .5:
                        o = rng.choice(others)
                        done.append(f'{type(o).__name__} {o.name} of the same package renamed to {was}')
                        o.name = was
                    else:
                        c.ePackage.eClassifiers.append(E.EClass(was))
                        done.append(f'a new EClass named {was} added to the same package')
    return done


def resave_case(ctx, h, tmp):
    """save, restructure the metamodel in memory, save the same resource again, load: the second file describes the
    metamodel as it is now"""
    from pyecore.resources import ResourceSet, URI
    rng = common.sub_rng(ctx.seed, 'C10', 'resave', h)
    pkg = gen_metamodel(rng, h)
    path = os.path.join(tmp, f'resave{h}.ecore')
    rep = {'case': h, 'pass': 'resave'}
    try:
        rs = ResourceSet()
        r = rs.create_resource(URI(path))
        r.append(pkg)
        r.save()
        done = restructure_pkg(rng, pkg)
        if not done:
            ctx.count('resave/nothing-to-change')
            return
        rep['changes'] = done
        ctx.evaluations += 1
        now = signature(pkg)
        r.save()
        back = ResourceSet().get_resource(URI(path)).contents[0]
        after = signature(back)
    except Exception as e:
        import traceback
        tb = [l.strip() for l in traceback.format_exc().splitlines() if 'pyecore' in l]
        ctx.violate({'clause': 'resave-raised', 'error': type(e).__name__},
                    f'save / restructure / save / load of a metamodel raised {type(e).__name__}: {str(e)[:100]} at {tb[-1] if tb else ""}', rep)
        return
    ctx.count('resave/done')
    ctx.nontriv(('resave', h))
    if now != after:
        d = next(((a, b) for a, b in zip(now, after) if a != b), (len(now), len(after)))
        ctx.violate({'clause': 'second-save-stale'}, f'after {done}, the second save does not describe the metamodel as it is: {d[0]!r} -> {d[1]!r}', rep)


def run_case_multi(ctx, h, tmp):
    """several root packages in one .ecore file (an xmi:XMI wrapper), classes of the same name under different roots,
    references, supertypes and operation types across the roots"""
    from pyecore import ecore as E
    from pyecore.resources import ResourceSet, URI
    rng = common.sub_rng(ctx.seed, 'C10', 'multi', h)
    nroots = rng.choice([2, 2, 3])
    roots = []
    nodes = []
    for i in range(nroots):
        p = E.EPackage(f'r{i}', f'http://verif/multi{h}/r{i}', f'r{i}')
        n = E.EClass('Node')
        n.eStructuralFeatures.append(E.EAttribute(f'weight{i}', E.EInt))
        p.eClassifiers.append(n)
        if rng.random() < .5:
            sub = E.EPackage('sub', f'http://verif/multi{h}/r{i}/sub', f's{i}')
            p.eSubpackages.append(sub)
            sub.eClassifiers.append(E.EClass('Node'))
            nodes.append(sub.eClassifiers[0])
        roots.append(p)
        nodes.append(n)
    holder = E.EClass('Holder')
    rng.choice(roots).eClassifiers.append(holder)
    for k, n in enumerate(nodes):
        holder.eStructuralFeatures.append(E.EReference(f'to{k}', n, upper=rng.choice([1, -1]), containment=rng.random() < .3))
    if rng.random() < .6:
        holder.eSuperTypes.append(rng.choice(nodes))
    op = E.EOperation('pick', eType=rng.choice(nodes))
    op.eParameters.append(E.EParameter('among', eType=rng.choice(nodes), required=True))
    holder.eOperations.append(op)
    before = [x for r in roots for x in signature(r)]
    ctx.evaluations += 1
    ctx.count('multi-root/' + str(nroots))
    path = os.path.join(tmp, f'multi{h}.ecore')
    try:
        rs = ResourceSet()
        res = rs.create_resource(URI(path))
        for r in roots:
            res.append(r)
        res.save()
        back = list(ResourceSet().get_resource(URI(path)).contents)
        after = [x for r in back for x in signature(r)]
    except Exception as e:
        import traceback
        tb = [l.strip() for l in traceback.format_exc().splitlines() if 'pyecore' in l]
        ctx.violate({'clause': 'roundtrip-raised', 'error': type(e).__name__, 'shape': 'multi-root'},
                    f'multi-root .ecore save/load raised {type(e).__name__}: {str(e)[:100]} at {tb[-1] if tb else ""}', {'case': h, 'multi': True})
        return
    ctx.nontriv(('multi', h))
    if before != after:
        d = next(((a, b) for a, b in zip(before, after) if a != b), (len(before), len(after)))
        ctx.violate({'clause': 'signature-differs', 'construct': d[0][0] if isinstance(d[0], tuple) else 'count', 'shape': 'multi-root'},
                    f'reloaded multi-root metamodel differs: {d[0]!r} -> {d[1]!r}', {'case': h, 'multi': True})


def corpus(ctx, tmp):
    """every .ecore shipped with the repository that loads on its own: re-save, re-load, same signature"""
    from pyecore.resources import ResourceSet, URI
    files = sorted(glob.glob(os.path.join(common.REPO, 'tests', '**', '*.ecore'), recursive=True) +
                   glob.glob(os.path.join(common.REPO, 'examples', '**', '*.ecore'), recursive=True))
    for f in files:
        try:
            pkg = ResourceSet().get_resource(URI(f)).contents[0]
            before = signature(pkg)
        except Exception:
            ctx.count('corpus/does-not-load-alone')
            continue
        ctx.evaluations += 1
        ctx.count('corpus/loaded')
        try:
            back, _ = roundtrip_pkg(pkg, tmp, 'corpus_' + os.path.basename(f))
            after = signature(back)
        except Exception as e:
            ctx.violate({'clause': 'corpus-roundtrip-raised', 'file': os.path.basename(f)},
                        f'{os.path.relpath(f, common.REPO)}: re-save/re-load raised {type(e).__name__}: {str(e)[:100]}', {'file': f})
            continue
        if before != after:
            d = next(((a, b) for a, b in zip(before, after) if a != b), (len(before), len(after)))
            ctx.violate({'clause': 'corpus-signature-differs', 'file': os.path.basename(f)},
                        f'{os.path.relpath(f, common.REPO)}: {d[0]!r} -> {d[1]!r}', {'file': f})


def run(ctx):
    common.use_repo()
    n = 60 if ctx.quick() else 2000
    ctx.rule = (f'{n} generated metamodels (packages/sub-packages, classes, abstract/interface, multiple inheritance, attributes and '
                'references with bounds/ordering/uniqueness/containment/iD/default literals/opposites, enumerations, data types with '
                'instanceClassName, operations with parameters, annotations; collections filled by append, insert or extend; one third as many files with several root packages holding same-named classes referred to across the roots) saved as .ecore, reloaded in a fresh resource set, compared '
                'by structural signature, reloaded classes instantiated; half as many metamodels saved, restructured in memory (subpackage / class renamed, class moved to another package) and saved again through the same resource; plus every .ecore shipped under tests/ and examples/ that loads '
                'on its own. non-trivial & distinct = metamodels that saved and loaded')
    tmp = tempfile.mkdtemp(prefix='verif_c10_')
    try:
        for h in range(n):
            run_case(ctx, h, tmp)
        for h in range(n // 3):
            run_case_multi(ctx, h, tmp)
        for h in range(n // 2):
            resave_case(ctx, h, tmp)
        corpus(ctx, tmp)
    finally:
        shutil.rmtree(tmp, ignore_errors=True)


def search(ctx):
    pass


def replay(ctx, data):
    common.use_repo()
    tmp = tempfile.mkdtemp(prefix='verif_c10_')
    c2 = common.Ctx('C10', data['tier'], data['seed'])
    try:
        if data['replay'].get('multi'):
            run_case_multi(c2, data['replay']['case'], tmp)
        elif data['replay'].get('pass') == 'resave':
            resave_case(c2, data['replay']['case'], tmp)
        elif 'case' in data['replay']:
            run_case(c2, data['replay']['case'], tmp)
        else:
            corpus(c2, tmp)
    finally:
        shutil.rmtree(tmp, ignore_errors=True)
    for v in c2.violations[:5]:
        print('  ', v['what'])
    return 1 if c2.violations else 0
