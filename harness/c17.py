"""C17 — data type values survive conversion to text and back (DESIGN.md section 4)."""
import datetime
import decimal
import math
import struct
from . import common, extract

EXTRA_TARGETS = ()


def extract_step(ctx):
    rows, changed = extract.gen_datatype_table()
    ctx.extra['datatype_table_rows'] = len(rows)
    ctx.extra['datatype_table_changed_on_disk'] = changed
    ctx.table_obligations = 1      # C17_table over the regenerated table
    return rows


extract = extract_step if False else None   # replaced below (module attribute named `extract` is the hook)


def _hook(ctx):
    from . import extract as ex
    rows, changed = ex.gen_datatype_table()
    ctx.extra['datatype_table_rows'] = len(rows)
    ctx.extra['datatype_table_regenerated'] = changed
    ctx.table_obligations = 1
    ctx._rows = rows


extract = _hook

PALETTE = ['', ' ', '  ', 'a', 'é', 'ß', '中', '𝔘', '\t', '\n', '\r', 'True', 'true', '0', '-1', '<', '&', '"', "'", ']]>',
           ' x ', 'a b', ' ', ' ', 'null', 'None', '\\', '%', '{}', '[]']


def ints(rng, n):
    base = [0, 1, -1, 2, -2, 9, 10, 11, 99, 100, 127, 128, 255, 256, 2 ** 15, 2 ** 31 - 1, 2 ** 31, -2 ** 31, 2 ** 63 - 1,
            2 ** 63, -2 ** 63, 2 ** 64, 10 ** 50, -10 ** 50, 10 ** 300 + 7]
    return base + [rng.randint(-10 ** rng.randint(1, 60), 10 ** rng.randint(1, 60)) for _ in range(n)]


def floats(rng, n):
    base = [0.0, -0.0, 1.0, -1.0, 0.1, 1 / 3, 1e-5, 1e16, 1e22, 1e23, float(2 ** 53), float(2 ** 53 + 2), 5e-324, 2.2250738585072014e-308,
            1.7976931348623157e308, float('inf'), float('-inf'), float('nan'), 123456789.123456789, 1e-7, 0.30000000000000004]
    out = list(base)
    for _ in range(n):
        bits = rng.getrandbits(64)
        out.append(struct.unpack('<d', struct.pack('<Q', bits))[0])
        out.append(rng.uniform(-1e6, 1e6))
    return out


def decimals(rng, n):
    D = decimal.Decimal
    base = [D('0'), D('-0'), D('1'), D('1.0'), D('1.00'), D('1E+2'), D('1E-7'), D('0.000001'), D('0.0000001'), D('123.456'),
            D('-1.5E+30'), D('9' * 40), D('1E+999'), D('1E-999'), D('Infinity'), D('-Infinity'), D('NaN'), D('sNaN'), D('0E-10'), D('0E+10')]
    out = list(base)
    for _ in range(n):
        out.append(D((rng.randint(0, 1), tuple(rng.randint(0, 9) for _ in range(rng.randint(1, 30))), rng.randint(-40, 40))))
    return out


def dates(rng, n):
    tzs = [None, datetime.timezone.utc] + [datetime.timezone(datetime.timedelta(seconds=s, microseconds=u)) for (s, u) in
           [(3600, 0), (-3600, 0), (19800, 0), (-34200, 0), (86399, 999999), (-86399, -999999), (3661, 0), (3600, 500), (1, 0), (1, 1)]]
    base = []
    for tz in tzs:
        base += [datetime.datetime(1000, 1, 1, 0, 0, 0, 0, tz), datetime.datetime(9999, 12, 31, 23, 59, 59, 999999, tz),
                 datetime.datetime(1, 1, 1, 0, 0, 0, 0, tz), datetime.datetime(999, 12, 31, 23, 59, 59, 999999, tz), datetime.datetime(87, 6, 5, 4, 3, 2, 1, tz),
                 datetime.datetime(2024, 2, 29, 12, 30, 45, 1, tz), datetime.datetime(1970, 1, 1, 0, 0, 0, 0, tz)]
    out = list(base)
    for _ in range(n):
        secs = rng.choice([rng.randint(1, 86399), -rng.randint(1, 86399)])
        tz = rng.choice(tzs + [datetime.timezone(datetime.timedelta(seconds=secs,
                                                                     microseconds=rng.choice([0, 0, rng.randint(0, 999999)])))])
        out.append(datetime.datetime(rng.choice([rng.randint(1000, 9999), rng.randint(1000, 9999), rng.randint(1, 999)]), rng.randint(1, 12), rng.randint(1, 28), rng.randint(0, 23),
                                     rng.randint(0, 59), rng.randint(0, 59), rng.choice([0, rng.randint(0, 999999)]), tz))
    return out


def strings(rng, n):
    out = list(PALETTE) + [a + b for a in PALETTE[:14] for b in PALETTE[:14]]
    alphabet = 'ab \t\n<>&"\'é中𝔘 %'
    for _ in range(n):
        out.append(''.join(rng.choice(alphabet) for _ in range(rng.randint(0, 12))))
    return out


def same(a, b):
    if type(a) is not type(b):
        return False
    if isinstance(a, float):
        return (math.isnan(a) and math.isnan(b)) or (a == b and math.copysign(1, a) == math.copysign(1, b))
    if isinstance(a, decimal.Decimal):
        if a.is_nan() or b.is_nan():
            return a.is_nan() and b.is_nan() and a.is_snan() == b.is_snan() and a.as_tuple() == b.as_tuple()
        return a.as_tuple() == b.as_tuple()
    if isinstance(a, datetime.datetime):
        return a == b and a.utcoffset() == b.utcoffset() and (a.tzinfo is None) == (b.tzinfo is None) and \
            a.replace(tzinfo=None) == b.replace(tzinfo=None)
    return a == b


def dt_fields(d):
    off = d.utcoffset()
    if off is None:
        tz = '-'
    else:
        tot = off.days * 86400 * 10 ** 6 + off.seconds * 10 ** 6 + off.microseconds
        sign = '-' if tot < 0 else '+'
        tot = abs(tot)
        us = tot % 10 ** 6
        sec = tot // 10 ** 6
        tz = f'{sign},{sec // 3600},{sec % 3600 // 60},{sec % 60},{us}'
    return f'{d.year},{d.month},{d.day},{d.hour},{d.minute},{d.second},{d.microsecond},{tz}'


def run(ctx):
    common.use_repo()
    rng = common.sub_rng(ctx.seed, 'C17')
    from pyecore import ecore as E
    rows = getattr(ctx, '_rows', None)
    if rows is None:
        from . import extract as ex
        rows = ex.datatype_rows()
    n = 400 if ctx.quick() else 40000
    values = {'int': ints(rng, n), 'float': floats(rng, n), 'decimal': decimals(rng, n), 'datetime': dates(rng, n),
              'str': strings(rng, n), 'bool': [True, False]}
    ctx.rule = ('every EDataType of pyecore.ecore and pyecore.type whose Python type is str/bool/int/float/Decimal/datetime: '
                'boundary values (0, +-1, +-2^31, +-2^63, 10^50, min/max/denormal/inf/nan floats, years 1/999/1000/9999, offsets up to '
                f'+-23:59:59.999999, strings over a palette with whitespace, XML specials, non-BMP) + {n} seeded samples per type; '
                'from_string(to_string(v)) == v with the same type on the real converters; for int/bool/datetime the text and the '
                'parsed value are also compared with the Lean converters. non-trivial & distinct = distinct (data type, value)')
    model_in, expect = [], []
    seen = set()
    for (name, py, tk, fk, dt) in rows:
        if py == 'other':
            ctx.count('row/not-textual')
            continue
        ctx.count(f'row/{py}')
        for v in values[py]:
            ctx.evaluations += 1
            key = (name, repr(v))
            if key in seen:
                continue
            seen.add(key)
            ctx.nontriv(key)
            try:
                text = dt.to_string(v)
                back = dt.from_string(text)
                ok = same(back, v)
                detail = f'{v!r} -> {text!r} -> {back!r}'
            except Exception as e:
                ok, detail, text = False, f'{v!r}: {type(e).__name__}: {e}', None
            if not ok:
                ctx.violate({'clause': 'roundtrip', 'datatype': name.split('.')[1], 'py': py},
                            f'{name}: from_string(to_string(v)) != v: {detail}',
                            {'datatype': name, 'value': repr(v), 'detail': detail})
                break
            if py == 'int' and abs(v) < 10 ** 4000:
                model_in += [f'intto {v}', f'intfrom {text}']
                expect += [(name, v, text), (name, v, str(v))]
            elif py == 'bool':
                model_in += [f'boolto {1 if v else 0}', f'boolfrom {text}']
                expect += [(name, v, text), (name, v, '1' if back else '0')]
            elif py == 'datetime' and tk == 'strftimeIso':
                model_in += ['datefmt ' + dt_fields(v).replace(',', ' '), f'dateparse {text}']
                expect += [(name, v, text), (name, v, dt_fields(back))]
        if len(ctx.samples) < 5:
            ctx.sample({'datatype': name, 'python_type': py, 'to_string': tk, 'from_string': fk})
    # enumerations: every literal by name
    for k in range(30 if ctx.quick() else 300):
        names = [f'L{i}' for i in range(rng.randint(1, 6))]
        rng.shuffle(names)
        en = E.EEnum(f'En{k}', literals=names)
        # the domain of an enumeration changes with its history: literals appended, inserted, removed, added under a
        # provisional name and renamed, renamed while members
        hist = []
        for step in range(rng.randint(0, 4)):
            c = rng.random()
            if c < .3:
                # (names are free text: a literal may be called '50Hz' or '4K'; only the constructor's `literals=` prefixes those)
                lit = E.EEnumLiteral(rng.choice([f'N{k}_{step}', f'{step}D{k}', f'{k}{step}']), value=rng.randint(0, 9))
                (en.eLiterals.append if rng.random() < .5 else (lambda x: en.eLiterals.insert(0, x)))(lit)
                hist.append(f'add {lit.name}')
            elif c < .55 and len(en.eLiterals):
                lit = rng.choice(list(en.eLiterals))
                old_ = lit.name
                lit.name = rng.choice([f'R{k}_{step}', f'{step}K{k}'])
                hist.append(f'rename {old_} -> {lit.name}')
                if rng.random() < .5:
                    # the name that became free is taken again: by another literal, or by a new one (appended / bulk-added)
                    others = [x for x in en.eLiterals if x is not lit]
                    if others and rng.random() < .6:
                        o = rng.choice(others)
                        hist.append(f'rename {o.name} -> {old_}')
                        o.name = old_
                    else:
                        n = E.EEnumLiteral(old_, value=rng.randint(0, 9))
                        (en.eLiterals.append if rng.random() < .5 else (lambda x: en.eLiterals.extend([x])))(n)
                        hist.append(f'add {old_} again')
            elif c < .7:
                lit = E.EEnumLiteral(f'tmp{step}')
                en.eLiterals.append(lit)
                lit.name = f'P{k}_{step}'
                hist.append(f'add as tmp{step}, rename -> {lit.name}')
            elif len(en.eLiterals) > 1:
                lit = rng.choice(list(en.eLiterals))
                en.eLiterals.remove(lit)
                hist.append(f'remove {lit.name}')
                if rng.random() < .5:
                    en.eLiterals.append(lit)
                    hist.append(f're-add {lit.name}')
        # a literal may carry a `literal` text beside its name (Eclipse-authored metamodels do: name HIGH, literal
        # 'high priority'); the name is what is written and read
        for lit in list(en.eLiterals):
            if rng.random() < .3:
                lit.literal = rng.choice(['high priority', lit.name.lower(), '', 'x y', lit.name])
                hist.append(f'{lit.name}.literal = {lit.literal!r}')
        ctx.count('enum/history-steps', len(hist))
        for lit in en.eLiterals:
            ctx.evaluations += 1
            try:
                back = en.from_string(en.to_string(lit))
            except Exception as e:
                back = f'raised {type(e).__name__}'
            if back is not lit:
                ctx.violate({'clause': 'roundtrip', 'datatype': 'EEnum'}, f'enum literal {lit} -> {en.to_string(lit)!r} -> {back} '
                            f'(history: {hist or "as constructed"})', {'literals': names, 'literal': str(lit), 'history': hist})
                break
    out = common.run_driver('codec', model_in)
    for line, exp, got in zip(model_in, expect, out):
        name, v, want = exp
        if got != want and len(ctx.divergences) < 20:
            ctx.diverge(f'{name} `{line[:80]}`: model `{got[:80]}` vs implementation `{want[:80]}`', {'datatype': name, 'value': repr(v)})
    ctx.traces = len(model_in)
    ctx.assumptions += ['floats and Decimal: CPython\'s text forms are not modelled; round trip checked on boundary classes and samples only',
                        'integers are generated below CPython\'s 4300-digit str/int limit; the theorem has no bound',
                        'data types without a textual Python type (bytes, object, type, dict, list) are not judged',
                        'UTC offsets of less than one second (non-zero) are not generated: CPython\'s datetime.fromisoformat reads them as UTC']


def search(ctx):
    pass


def replay(ctx, data):
    common.use_repo()
    print('  ', data['what'])
    return 1
