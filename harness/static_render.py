"""Rendering of a metamodel description (store.MMDesc, optionally with `extras`) as *static* pyecore code: Python classes
with MetaEClass / @EMetaclass, the way pyecoregen writes them (C13).

extras (all optional): mm.dflt {fid: python literal}, mm.explicit {fid: key}  (feature bound to `key` but named by
name=...), mm.methods {cid: [(name, kind, [args], ndefaults)]}, mm.consts {cid: [key]}, mm.mixins {cid: 'before' | 'after' | 'between'}
(a plain Python class among the bases of a class that has supertypes)
"""
import sys
import types

_count = [0]


def body_items(mm, cid):
    """entries of the class body in definition order: ('F', key, feat) | ('M', name, kind, args, nd) | ('O', key)"""
    out = []
    for f in mm.feats:
        if f.owner == cid:
            out.append(('F', getattr(mm, 'explicit', {}).get(f.fid, f.name), f))
    for k in getattr(mm, 'consts', {}).get(cid, []):
        out.append(('O', k))
    for (name, kind, args, nd) in getattr(mm, 'methods', {}).get(cid, []):
        out.append(('M', name, kind, args, nd))
    return out


def source(mm, style='metaclass'):
    b = lambda x: 'True' if x else 'False'
    dflt = getattr(mm, 'dflt', {})
    out = ['from functools import partial', 'import pyecore.ecore as Ecore', 'from pyecore.ecore import *', '',
           "name = 'p'", "nsURI = 'http://verif/p'", "nsPrefix = 'p'",
           'eClass = EPackage(name=name, nsURI=nsURI, nsPrefix=nsPrefix)', 'eClassifiers = {}',
           'getEClassifier = partial(Ecore.getEClassifier, searchspace=eClassifiers)', '']
    for (cid, abstract, supers) in mm.classes:
        if abstract:
            out.append('@abstract')
        if supers:
            bases = [f'C{s}' for s in supers]
            where = getattr(mm, 'mixins', {}).get(cid)
            if where:
                out[-1:-1] = [f'class Mix{cid}(object):', f"    def mixed_{cid}(this):", f"        return 'mixed'", '']
                bases.insert({'before': 0, 'after': len(bases), 'between': min(1, len(bases))}[where], f'Mix{cid}')
            if style == 'decorator' and getattr(mm, 'decorate_subclasses', False) and not where:
                out.append('@EMetaclass')       # (a subclass of a static class may carry the decorator as well)
            out.append(f"class C{cid}({', '.join(bases)}):")
        elif style == 'decorator':
            out.append('@EMetaclass')
            out.append(f'class C{cid}(object):')
        else:
            out.append(f'class C{cid}(EObject, metaclass=MetaEClass):')
        items = body_items(mm, cid)
        for it in items:
            if it[0] == 'F':
                _, key, f = it
                nm = f"name='{f.name}', " if key != f.name else ''
                if f.ref:
                    out.append(f'    {key} = EReference({nm}ordered={b(f.ordered)}, unique={b(f.unique)}, containment={b(f.cont)}, '
                               f'upper={-1 if f.many else 1}, transient={b(getattr(f, "transient", False))})')
                else:
                    d = f', default_value={dflt[f.fid]!r}' if f.fid in dflt else ''
                    out.append(f'    {key} = EAttribute({nm}eType={f.typ[1]}, ordered={b(f.ordered)}, unique={b(f.unique)}, '
                               f'upper={-1 if f.many else 1}{d})')
            elif it[0] == 'O':
                out.append(f'    {it[1]} = 42')
            else:
                _, name, kind, args, nd = it
                ps = [a if j < len(args) - nd else f'{a}={["None", "0", "False", repr(""), str(j)][(j + len(name)) % 5]}' for j, a in enumerate(args)]
                if kind == 'static':
                    out.append('    @staticmethod')
                elif kind == 'class':
                    out.append('    @classmethod')
                out.append(f"    def {name}({', '.join(ps)}):\n        return '{name}'")
        if getattr(mm, 'with_init', False):
            # the constructor pyecoregen writes: own features as keyword-only arguments, the rest handed up
            own = [(key, f) for (k_, key, f) in [it for it in items if it[0] == 'F'] if key == f.name]
            sig = ''.join(f'{key}=None, ' for key, _f in own)
            out.append(f'    def __init__(self, {"*, " if own else ""}{sig}**kwargs):')
            out.append('        super().__init__(**kwargs)')
            for key, f in own:
                if f.many:
                    out.append(f'        if {key}:\n            self.{key}.extend({key})')
                else:
                    out.append(f'        if {key} is not None:\n            self.{key} = {key}')
        elif not items:
            out.append('    pass')
        out.append('')
    explicit = getattr(mm, 'explicit', {})
    key = lambda f: explicit.get(f.fid, f.name)
    for f in mm.feats:
        if f.ref:
            out.append(f'C{f.owner}.{key(f)}.eType = C{f.typ[1]}')
    for f in mm.feats:
        if f.opp is not None and f.fid < f.opp:
            g = mm.feats[f.opp]
            out.append(f'C{f.owner}.{key(f)}.eOpposite = C{g.owner}.{key(g)}')
    return '\n'.join(out) + '\n'


def build(mm, style='metaclass'):
    """-> (package, [EClass], [features], module, source) like store.build_mm"""
    _count[0] += 1
    modname = f'c13_static_{_count[0]}'
    mod = types.ModuleType(modname)
    sys.modules[modname] = mod
    src = source(mm, style)
    try:
        exec(compile(src, modname, 'exec'), mod.__dict__)
    finally:
        sys.modules.pop(modname, None)
    pyclasses = [getattr(mod, f'C{cid}') for (cid, _a, _s) in mm.classes]
    classes = [c.eClass for c in pyclasses]
    explicit = getattr(mm, 'explicit', {})
    feats = [pyclasses[f.owner].__dict__[explicit.get(f.fid, f.name)] for f in mm.feats]
    return mod.eClass, classes, feats, mod, src


def builder(style):
    def go(mm):
        pk, classes, feats, mod, src = build(mm, style)
        go.last = (mod, src)
        return pk, classes, feats
    return go
