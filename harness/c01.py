"""C01 — see DESIGN.md section 4 and harness/storecheck.py; plus the "... or load" half: documents that state the two ends
of a bidirectional reference inconsistently."""
import os
import shutil
import tempfile
from . import storecheck, common, models, inconsistent, crossworld
from .c08 import unproxy

CHECKS = ('c01',)


def _preorder(roots):
    out = []
    for r in roots:
        out.append(r)
        out.extend(r.eAllContents())
    return out


def load_pass(ctx):
    """saved documents with one end of a bidirectional reference rewritten (another valid target, a target dropped, a
    target given twice): whatever the loader decides, the loaded model is symmetric"""
    from pyecore.resources import ResourceSet, URI
    from pyecore.resources.json import JsonResource
    n = 120 if ctx.quick() else 2500
    tmp = tempfile.mkdtemp(prefix='verif_c01_')
    try:
        for h in range(n):
            rng = common.sub_rng(ctx.seed, 'C01', 'load', h)
            sp = models.gen_mmspec(rng, h)
            m = models.gen_model(rng, sp, nobj=rng.randint(3, 9), values='safe')
            classes = [m.classes[c['name']] for c in sp.classes]
            fmt = 'xmi' if h % 2 == 0 else 'json'
            rset = ResourceSet()
            rset.resource_factory['json'] = lambda uri: JsonResource(uri)
            path = os.path.join(tmp, f'doc.{fmt}')
            res = rset.create_resource(URI(path))
            for r in m.roots:
                res.append(r)
            try:
                res.save()
            except Exception:
                continue
            data = open(path, 'rb').read()
            variants = (inconsistent.xmi_variants if fmt == 'xmi' else inconsistent.json_variants)(rng, data, classes, 3)
            for how, doc in [('as-saved', data)] + variants:
                with open(path, 'wb') as fh:
                    fh.write(doc)
                rset2 = ResourceSet()
                rset2.resource_factory['json'] = lambda uri: JsonResource(uri)
                rset2.metamodel_registry[m.pk.nsURI] = m.pk
                ctx.evaluations += 1
                try:
                    res2 = rset2.get_resource(URI(path))
                except Exception:
                    ctx.count(f'load/{fmt}/{how}/raised')
                    continue
                ctx.count(f'load/{fmt}/{how}/loaded')
                bad = inconsistent.asymmetric(res2.contents, unproxy)
                if how != 'as-saved':
                    ctx.nontriv(('load', h, how))
                if bad:
                    ctx.violate({'clause': 'sym-after-load', 'format': fmt, 'document': how},
                                f'after loading a {fmt} document ({how}): {bad}',
                                {'case': h, 'format': fmt, 'document': how, 'text': doc.decode('utf-8', 'replace')[:3000]})
                    break
                # the loaded collections are then used: taking values out of many-valued ends by value (the positions a
                # loader may have rearranged are what `remove` / `discard` / `-=` rely on)
                objs = _preorder(res2.contents)
                ends = [(o, f) for o in objs for f in sorted(o.eClass.eAllReferences(), key=lambda f: f.name)
                        if f.many and f.eOpposite is not None and not f.derived]
                calls = []
                for step in range(4):
                    live = [(o, f) for o, f in ends if len(o.eGet(f))]
                    if not live:
                        break
                    o, f = rng.choice(live)
                    coll = o.eGet(f)
                    before = list(coll)
                    y = rng.choice(before)
                    form = rng.choice(['remove', 'discard', 'isub']) if hasattr(coll, 'discard') else 'remove'
                    calls.append(f'{o.eClass.name}.{f.name}: {form} of element {before.index(y)} of {len(before)}')
                    ctx.evaluations += 1
                    try:
                        if form == 'remove':
                            coll.remove(y)
                        elif form == 'discard':
                            coll.discard(y)
                        else:
                            coll -= [y]
                    except Exception as e:
                        ctx.count(f'load/{fmt}/use-raised/' + type(e).__name__)
                    ctx.nontriv(('load-use', h, how, step))
                    after = list(o.eGet(f))
                    bad = inconsistent.asymmetric(res2.contents, unproxy)
                    if not bad and [id(v) for v in after] != [id(v) for v in before if v is not y]:
                        bad = f'{o.eClass.name}.{f.name}: taking one value out left other values than the remaining ones'
                    if bad:
                        ctx.violate({'clause': 'sym-after-load-use', 'format': fmt, 'document': how},
                                    f'after loading a {fmt} document ({how}) and {calls[-1]}: {bad}',
                                    {'case': h, 'format': fmt, 'document': how, 'calls': calls,
                                     'text': doc.decode('utf-8', 'replace')[:3000]})
                        break
                if ctx.violations:
                    break
    finally:
        shutil.rmtree(tmp, ignore_errors=True)


def self_opposite_pass(ctx):
    """a reference that is its own opposite (a symmetric relation: friends, spouse): every mutator, symmetry after each
    call — an object may be its own friend"""
    from pyecore import ecore as E
    n = 60 if ctx.quick() else 1500
    for h in range(n):
        rng = common.sub_rng(ctx.seed, 'C01', 'self-opposite', h)
        many = h % 3 != 0
        A = E.EClass('A')
        fr = E.EReference('rel', A, upper=-1 if many else 1)
        A.eStructuralFeatures.append(fr)
        fr.eOpposite = fr
        objs = [A() for _ in range(rng.randint(2, 4))]
        log = []
        for step in range(12 if ctx.quick() else 20):
            x, y = rng.choice(objs), rng.choice(objs)
            ys = rng.sample(objs, rng.randint(0, len(objs)))
            if many:
                op = rng.choice(['append', 'remove', 'clear', 'extend', 'insert', 'pop', 'assign', 'insert-bad-index'])
            else:
                op = rng.choice(['set', 'set', 'unset'])
            log.append(f'o{objs.index(x)}.rel {op} {("o" + str(objs.index(y))) if op in ("append", "remove", "insert", "set", "insert-bad-index") else [objs.index(z) for z in ys] if op in ("extend", "assign") else ""}')
            try:
                if op == 'append':
                    x.rel.append(y)
                elif op == 'remove':
                    x.rel.remove(y)
                elif op == 'clear':
                    x.rel.clear()
                elif op == 'extend':
                    x.rel.extend(ys)
                elif op == 'insert':
                    x.rel.insert(rng.randint(-3, 3), y)
                elif op == 'insert-bad-index':
                    x.rel.insert('a', y)
                elif op == 'pop':
                    x.rel.pop()
                elif op == 'assign':
                    x.rel = ys
                elif op == 'set':
                    x.rel = y
                else:
                    x.rel = None
                ctx.count('self-opposite/' + op)
            except Exception as e:
                ctx.count('self-opposite/' + op + '/raised')
            ctx.evaluations += 1
            ctx.nontriv(('self-opposite', h, step))
            vals = lambda o: list(o.rel) if many else ([o.rel] if o.rel is not None else [])
            bad = next((f'o{objs.index(a)} holds o{objs.index(b)} but not the other way round' for a in objs for b in vals(a)
                        if not any(c is a for c in vals(b))), None)
            if bad:
                ctx.violate({'clause': 'sym-self-opposite', 'many': many, 'op': op},
                            f'reference that is its own opposite ({"many" if many else "single"}-valued), after {log[-1]}: {bad}',
                            {'case': h, 'calls': log})
                break


def late_opposite_pass(ctx):
    """a metamodel built step by step: the two references exist, instances exist and have been read (or written) through
    them, and only then are they declared each other's opposites (or re-declared: the opposite given up, another one
    taken).  From that moment every mutation keeps the pair symmetric — on the old instances as on new ones"""
    from pyecore import ecore as E
    n = 40 if ctx.quick() else 600
    for h in range(n):
        rng = common.sub_rng(ctx.seed, 'C01', 'late-opposite', h)
        mf, mg = rng.random() < .5, rng.random() < .5
        A, B = E.EClass('A'), E.EClass('B')
        f = E.EReference('f', B, upper=-1 if mf else 1)
        g = E.EReference('g', A, upper=-1 if mg else 1)
        g2 = E.EReference('g2', A, upper=-1 if mg else 1)
        A.eStructuralFeatures.append(f); B.eStructuralFeatures.extend([g, g2])
        olds = ([A(), A()], [B(), B()])
        touch = rng.choice(['read', 'read', 'none', 'read-some'])
        for k, o in enumerate(olds[0] + olds[1]):
            if touch == 'read' or (touch == 'read-some' and k % 2 == 0):
                for ft in o.eClass.eAllReferences():
                    _ = o.eGet(ft)
        log = [f'instances {touch} before the declaration']
        if rng.random() < .3:
            f.eOpposite = g2
            f.eOpposite = None if rng.random() < .5 else g
            log.append('f paired with g2 first, then released / re-paired')
        f.eOpposite = g
        log.append('f.eOpposite = g')
        objsA = olds[0] + [A()]
        objsB = olds[1] + [B()]

        def vals(o, ft):
            v = o.eGet(ft)
            return list(v) if ft.many else ([v] if v is not None else [])
        for step in range(8):
            side = rng.random() < .5
            x = rng.choice(objsA if side else objsB)
            y = rng.choice(objsB if side else objsA)
            ft = f if side else g
            try:
                if ft.many:
                    c = x.eGet(ft)
                    k = rng.random()
                    if k < .5 or not len(c):
                        rng.choice([c.append, lambda v: c.insert(0, v), lambda v: c.extend([v])])(y)
                        log.append(f'{"A" if side else "B"}{(objsA if side else objsB).index(x)}.{ft.name} += {"B" if side else "A"}{(objsB if side else objsA).index(y)}')
                    elif k < .8:
                        c.remove(c[0]); log.append('remove first')
                    else:
                        c.clear(); log.append('clear')
                else:
                    x.eSet(ft, y if rng.random() < .8 else None)
                    log.append(f'{"A" if side else "B"}{(objsA if side else objsB).index(x)}.{ft.name} = …')
            except Exception as e:
                log.append(f'raised {type(e).__name__}')
            ctx.evaluations += 1
            ctx.nontriv(('late-opposite', h, step))
            bad = None
            for a in objsA:
                for b in vals(a, f):
                    if not any(z is a for z in vals(b, g)):
                        bad = f'A{objsA.index(a)}.f holds B{objsB.index(b)}, whose g does not hold it back'
            for b in objsB:
                for a in vals(b, g):
                    if not any(z is b for z in vals(a, f)):
                        bad = f'B{objsB.index(b)}.g holds A{objsA.index(a)}, whose f does not hold it back'
            if bad:
                ctx.violate({'clause': 'sym-late-opposite', 'shape': [mf, mg]},
                            f'opposites declared after instances existed ({"many" if mf else "single"} / {"many" if mg else "single"}), after {log}: {bad}',
                            {'late_opposite': h, 'calls': log})
                return


def proxy_partner_pass(ctx):
    """one end of a pair holds its partner through a *resolved proxy* (what a cross-resource reference is once it has been
    followed); the other end is then written with the instance itself — the partner it already has, another one, None,
    and again: after every call both ends agree (a proxy standing for its target)"""
    from pyecore import ecore as E
    n = 60 if ctx.quick() else 1500
    for k in range(n):
        rng = common.sub_rng(ctx.seed, 'C01', 'proxy-partner', k)
        ma, mb = k % 2 == 1, (k // 2) % 2 == 1
        A, B = E.EClass('A'), E.EClass('B')
        fb = E.EReference('b', B, upper=-1 if ma else 1)
        fa = E.EReference('a', A, upper=-1 if mb else 1, eOpposite=fb)
        A.eStructuralFeatures.append(fb); B.eStructuralFeatures.append(fa)
        xs, ys = [A(), A()], [B(), B()]

        def vals(o, f):
            v = o.eGet(f)
            return [unproxy(t) for t in (list(v) if f.many else ([v] if v is not None else []))]

        def asym():
            for x in xs:
                for y in vals(x, fb):
                    if not any(t is x for t in vals(y, fa)):
                        return 'an A holds a B that does not hold it back'
            for y in ys:
                for x in vals(y, fa):
                    if not any(t is y for t in vals(x, fb)):
                        return 'a B holds an A that does not hold it back'
            return None
        calls = []
        for step in range(rng.randint(2, 6)):
            side = rng.random() < .5
            o, f, others = (rng.choice(ys), fa, xs) if side else (rng.choice(xs), fb, ys)
            t = rng.choice(others)
            form = rng.choice(['proxy', 'proxy', 'instance', 'none'])
            val = E.EProxy(wrapped=t) if form == 'proxy' else (t if form == 'instance' else None)
            what = f'{"B.a" if side else "A.b"} (many={f.many}) <- {form}'
            try:
                if f.many:
                    if val is None:
                        if len(o.eGet(f)):
                            o.eGet(f).pop()
                    elif not any(unproxy(v) is t for v in o.eGet(f)):
                        o.eGet(f).append(val)
                    else:
                        continue
                else:
                    o.eSet(f, val)
            except Exception as e:
                what += f' raised {type(e).__name__}'
            calls.append(what)
            ctx.evaluations += 1
            bad = asym()
            if bad:
                ctx.violate({'clause': 'sym-proxy-partner', 'many': bool(f.many), 'opposite_many': bool(f.eOpposite.many)},
                            f'after {calls}: {bad}', {'proxy_partner': k, 'calls': calls})
                return
        ctx.nontriv(('proxy-partner', k))


def run(ctx):
    storecheck.run(ctx, CHECKS)
    late_opposite_pass(ctx)
    load_pass(ctx)
    self_opposite_pass(ctx)
    proxy_partner_pass(ctx)
    crossworld.symmetry_pass(ctx)
    crossworld.notification_pass(ctx, tag='C01u', judge='symmetry')
    ctx.rule += ('; plus saved XMI / JSON documents with one end of a bidirectional reference rewritten (another valid target, a '
                 'target dropped, a target given twice), loaded: symmetry of every opposite pair in whatever loads; plus models spread over 2-3 '
                 'XMI / JSON resources, saved, reloaded in a fresh resource set with every reference followed: bidirectional references '
                 're-pointed / extended / reduced with the instances, symmetry (proxies standing for their targets) after every call; and the same worlds with nothing followed: unresolved proxies, local objects and None stored, symmetry among the objects of the loaded resource after every call')


def search(ctx):
    storecheck.search(ctx, CHECKS)


def replay(ctx, data):
    if data.get('signature', {}).get('clause') == 'sym-after-load':
        print('  ', data.get('what'))
        print(data.get('replay', {}).get('text', '')[:2000])
        return 1
    return storecheck.replay(ctx, data, CHECKS)
