"""C13 — static and dynamic definitions of a metamodel are interchangeable (DESIGN.md section 4)."""
import os
import sys
import shutil
import tempfile
from . import common, store, histories, static_render, models

STYLES = ('metaclass', 'decorator')


# ---------------------------------------------------------------------------------------------
# (a) reflective description

def enrich(mm, rng):
    """extras for the description pass: abstract classes, attribute defaults, explicitly named features, methods of every
    kind, plain class attributes"""
    mm.classes = [(cid, (cid >= 2 and rng.random() < .4), supers) for (cid, _a, supers) in mm.classes]
    mm.dflt, mm.explicit, mm.methods, mm.consts = {}, {}, {}, {}
    # plain Python mix-ins among the bases of a static class (before or after the metamodel classes): not supertypes
    mm.mixins = {cid: rng.choice(['before', 'after', 'between']) for (cid, _a, supers) in mm.classes if supers and rng.random() < .35}
    for f in mm.feats:
        if not f.ref and not f.many and rng.random() < .5:
            mm.dflt[f.fid] = {'EInt': rng.choice([0, 7, -1]), 'EString': rng.choice(['', 'dflt']), 'EBoolean': rng.choice([True, False])}[f.typ[1]]
        if rng.random() < .2:
            mm.explicit[f.fid] = f'key_{f.name}'
    for (cid, _a, _s) in mm.classes:
        ms = []
        for i in range(rng.choice([0, 1, 2, 3])):
            kind = rng.choice(['function', 'function', 'function', 'static', 'class', 'dunder', 'noself'])
            nreq, nopt = rng.randint(0, 2), rng.randint(0, 2)
            ps = [f'a{j}' for j in range(nreq)] + [f'b{j}' for j in range(nopt)]
            name = f'm{cid}_{i}'
            if kind == 'dunder':
                ms.append((f'__d{cid}_{i}__', 'function', ['self'] + ps, nopt))
            elif kind == 'noself':
                ms.append((name, 'function', ['this'] + ps, nopt))
            elif kind == 'class':
                ms.append((name, 'class', ['cls'] + ps, nopt))
            else:
                ms.append((name, kind, ['self'] + ps, nopt))
        if ms:
            mm.methods[cid] = ms
        if rng.random() < .3:
            mm.consts[cid] = [f'CONST{cid}']
    return mm


def reflected_ops(mm, cid):
    """the statement's rule (C20), from the description"""
    out = []
    for (name, kind, args, nd) in getattr(mm, 'methods', {}).get(cid, []):
        if kind == 'function' and not name.startswith('__') and args[:1] == ['self']:
            out.append((name, [(a, j < len(args) - nd) for j, a in enumerate(args)]))
    return out


DYN_STYLES = ('append', 'extend', 'ctor')


def build_mm_styled(mm, style):
    """store.build_mm, with the other ways the dynamic API offers to say the same thing: supertypes and features given in
    bulk (extend / +=) or supertypes through the EClass constructor"""
    from pyecore import ecore as E
    pk = E.EPackage('p', 'http://verif/p', 'p')
    classes = []
    for (cid, abstract, supers) in mm.classes:
        if style == 'ctor' and supers:
            c = E.EClass(f'C{cid}', superclass=tuple(classes[s_] for s_ in supers), abstract=abstract)
        else:
            c = E.EClass(f'C{cid}', abstract=abstract)
        classes.append(c)
        pk.eClassifiers.append(c)
    if style != 'ctor':
        for (cid, abstract, supers) in mm.classes:
            if supers:
                if style == 'extend':
                    classes[cid].eSuperTypes.extend([classes[s_] for s_ in supers])
                else:
                    for s_ in supers:
                        classes[cid].eSuperTypes.append(classes[s_])
    feats = []
    for f in mm.feats:
        if f.ref:
            ef = E.EReference(f.name, classes[f.typ[1]], upper=-1 if f.many else 1, ordered=f.ordered,
                              unique=f.unique, containment=f.cont, transient=getattr(f, 'transient', False))
        else:
            ef = E.EAttribute(f.name, getattr(E, f.typ[1]), upper=-1 if f.many else 1, ordered=f.ordered, unique=f.unique)
        feats.append(ef)
    for (cid, _a, _s) in mm.classes:
        own = [feats[f.fid] for f in mm.feats if f.owner == cid]
        if style == 'extend' and own:
            classes[cid].eStructuralFeatures.extend(own)
        else:
            for ef in own:
                classes[cid].eStructuralFeatures.append(ef)
    for f in mm.feats:
        if f.opp is not None and f.fid < f.opp:
            feats[f.fid].eOpposite = feats[f.opp]
    return pk, classes, feats


def build_dynamic(mm, style='append'):
    """the description as dynamic EClasses + the extras, the way a user of the dynamic API writes them"""
    from pyecore import ecore as E
    pk, classes, feats = build_mm_styled(mm, style)
    for fid, v in getattr(mm, 'dflt', {}).items():
        feats[fid].default_value = v
    for (cid, _a, _s) in mm.classes:
        for (name, ps) in reflected_ops(mm, cid):
            classes[cid].eOperations.append(E.EOperation(name, params=[E.EParameter(n, E.ENativeType, required=r) for (n, r) in ps]))
    return pk, classes, feats


def describe(ec):
    """canonical reflective description of one EClass through the public reflective API"""
    fs = []
    for f in ec.eStructuralFeatures:
        isref = hasattr(f, 'containment')
        flags = ''.join('1' if x else '0' for x in (isref, f.many, f.ordered, f.unique, isref and f.containment))
        opp = f.eOpposite.name if isref and f.eOpposite is not None else '-'
        d = '-'
        if not isref and not f.many and f.get_default_value() is not None:
            d = repr(f.get_default_value()).replace(' ', '_')
        t = f.eType
        if isinstance(t, type) and hasattr(t, 'eClass'):      # a static class stands for its EClass (generated code assigns the class)
            t = t.eClass
        fs.append(f'{f.name}:{flags}:{t.name}:{opp}:{d}')
    ops = []
    for op in ec.eOperations:
        ops.append(op.name + '(' + ','.join(p.name + (':r' if p.required else ':o') for p in op.eParameters) + ')')
    j = lambda l: ';'.join(l) if l else '-'
    sup = ','.join(s.name for s in ec.eSuperTypes) or '-'
    return f"{ec.name} {1 if ec.abstract else 0} supers={sup} feats={j(fs)} ops={j(ops)}"


TYPE_DEFAULT = {'EInt': 0, 'EBoolean': False, 'EString': None}


def spec_default(mm, f):
    """effective default of a feature, from the description: the declared one, else the data type's"""
    if f.ref or f.many:
        return '-'
    v = getattr(mm, 'dflt', {}).get(f.fid, TYPE_DEFAULT[f.typ[1]])
    return '-' if v is None else repr(v).replace(' ', '_')


def describe_spec(mm, cid):
    """the same record from the description itself (independent oracle)"""
    (_c, abstract, supers) = mm.classes[cid]
    fs = []
    for f in mm.feats:
        if f.owner != cid:
            continue
        flags = ''.join('1' if x else '0' for x in (f.ref, f.many, f.ordered, f.unique, f.cont))
        typ = f'C{f.typ[1]}' if f.ref else f.typ[1]
        opp = mm.feats[f.opp].name if f.opp is not None else '-'
        d = spec_default(mm, f)
        fs.append(f'{f.name}:{flags}:{typ}:{opp}:{d}')
    ops = [name + '(' + ','.join(n + (':r' if r else ':o') for (n, r) in ps) + ')' for (name, ps) in reflected_ops(mm, cid)]
    j = lambda l: ';'.join(l) if l else '-'
    sup = ','.join(f'C{s}' for s in supers) or '-'
    return f"C{cid} {1 if abstract else 0} supers={sup} feats={j(fs)} ops={j(ops)}"


def body_line(mm, cid, style):
    (_c, abstract, supers) = mm.classes[cid]
    bases = ','.join(f'C{s}' for s in supers) if supers else 'EObject'
    items = []
    for it in static_render.body_items(mm, cid):
        if it[0] == 'F':
            _, key, f = it
            flags = ''.join('1' if x else '0' for x in (f.ref, f.many, f.ordered, f.unique, f.cont))
            typ = f'C{f.typ[1]}' if f.ref else f.typ[1]
            opp = mm.feats[f.opp].name if f.opp is not None else '-'
            d = spec_default(mm, f)
            items.append(f"F:{key}:{f.name if key != f.name else '-'}:{flags}:{typ}:{opp}:{d}")
        elif it[0] == 'O':
            items.append(f'O:{it[1]}')
        else:
            _, name, kind, args, nd = it
            items.append(f"M:{name}:{name}:{kind}:{nd}:{','.join(args) or '-'}")
    return f"body C{cid} {1 if abstract else 0} {bases} " + ' '.join(items)


def describe_pass(ctx):
    n = 250 if ctx.quick() else 1200
    lines, reals = [], []
    for h in range(n):
        rng = common.sub_rng(ctx.seed, 'C13', 'descr', h)
        mm = enrich(store.gen_mm(rng), rng)
        rep = {'case': h, 'pass': 'description'}
        dstyle = DYN_STYLES[h % len(DYN_STYLES)]
        rep['dynamic_style'] = dstyle
        ctx.count('dynamic-style/' + dstyle)
        try:
            _pk, dyn, _f = build_dynamic(mm, dstyle)
        except Exception as e:
            ctx.violate({'clause': 'dynamic-definition-raised'}, f'{type(e).__name__}: {e}', rep); continue
        mm.decorate_subclasses = h % 3 == 0
        for style in STYLES:
            try:
                _pk2, sta, _f2, mod, src = static_render.build(mm, style)
            except Exception as e:
                ctx.violate({'clause': 'static-definition-raised'}, f'{style}: {type(e).__name__}: {e}',
                            dict(rep, source=static_render.source(mm, style))); continue
            # the package lists every class once, and answers for each name with that class (as the dynamic package does)
            listed = [c.name for c in _pk2.eClassifiers]
            lookups = [_pk2.getEClassifier(f'C{cid}') is sta[cid] for cid in range(len(mm.classes))]
            if sorted(listed) != sorted(f'C{cid}' for cid in range(len(mm.classes))) or not all(lookups):
                ctx.violate({'clause': 'description-differs', 'style': style, 'package': True},
                            f'static ({style}) package lists {listed} for {len(mm.classes)} classes; getEClassifier answers with the class: {lookups}',
                            dict(rep, source=src))
            for cid in range(len(mm.classes)):
                ctx.evaluations += 1
                d, s, want = describe(dyn[cid]), describe(sta[cid]), describe_spec(mm, cid)
                if d != want:
                    ctx.violate({'clause': 'dynamic-description'}, f'dynamic C{cid} describes itself as `{d}`, built as `{want}`', rep)
                if s != d:
                    ctx.violate({'clause': 'description-differs', 'style': style},
                                f'C{cid}: static ({style}) `{s}` vs dynamic `{d}`', dict(rep, source=src))
                lines.append(body_line(mm, cid, style)); reals.append((s, dict(rep, source=src)))
                ctx.count('descr/' + style)
                if mm.methods.get(cid) or any(f.owner == cid for f in mm.feats):
                    ctx.nontriv(('descr', h, cid))
            # derived views and instances agree
            for cid in range(len(mm.classes)):
                views = []
                for ec in (dyn[cid], sta[cid]):
                  try:
                    v = [[f.name for f in ec.eAllStructuralFeatures()], sorted(x.name for x in ec.eAllSuperTypes()),
                         sorted(o.name for o in ec.eAllOperations())]
                    if not ec.abstract:
                        o = ec()
                        v.append(sorted(dir(o)))
                        v.append([(k.name, isinstance(o, k), isinstance(o, k.python_class)) for k in (dyn if ec is dyn[cid] else sta)])
                        if not mm.explicit:
                            # (a static feature bound under a key other than its explicit name is readable under the key
                            # only: that rendering is this harness's invention, kept for the description half only)
                            v.append([(f.name, repr(o.eGet(f))[:40] if not f.many else len(o.eGet(f))) for f in ec.eAllStructuralFeatures()])
                    views.append(v)
                  except Exception as e:
                    views.append(f'raised {type(e).__name__}: {str(e)[:100]}')
                ctx.evaluations += 1
                if views[0] != views[1]:
                    ctx.violate({'clause': 'views-differ', 'style': style}, f'C{cid}: eAllStructuralFeatures / eAllSuperTypes / '
                                f'eAllOperations / dir(instance) / isinstance: dynamic {views[0]} vs static {views[1]}', dict(rep, source=src))
            # abstractness and instantiation agree
            for cid, (_c, abstract, _s) in enumerate(mm.classes):
                for side, ec in (('dynamic', dyn[cid]), ('static', sta[cid])):
                    try:
                        ec(); made = True
                    except TypeError:
                        made = False
                    if made == abstract:
                        ctx.violate({'clause': 'abstract-instantiation'}, f'{side} C{cid} abstract={abstract} but instantiation '
                                    f'{"succeeds" if made else "raises"}', rep)
        ctx.traces += 1
    outs = common.run_driver('static', lines)
    for (real, rep), out, line in zip(reals, outs, lines):
        ctx.evaluations += 1
        if real != out:
            ctx.diverge(f'`{line}`: implementation describes `{real}`, model promote gives `{out}`', rep)


# ---------------------------------------------------------------------------------------------
# (b) same operations, same results / exceptions / notifications / state; (c) documents

def canon_notifs(line, notifs):
    """order across different (notifier, feature) pairs is not claimed (C05); delete() walks a set of references, so
    only what it removes from each slot is compared"""
    g = {}
    if line.startswith('delete'):
        for (who, fid, kind, old, new) in notifs:
            if kind == 'REMOVE_MANY':
                vals = [v for v in old.strip('[]').split(',') if v]
            elif old != 'n':
                vals = [old]
            else:
                vals = []
            g.setdefault((who, fid), []).extend(vals)
        return sorted((k, sorted(v)) for k, v in g.items() if v)
    for nf in notifs:
        g.setdefault((nf[0], nf[1]), []).append(nf[2:])
    return sorted(g.items(), key=repr)


def instances_view(w, static):
    """allInstances() of every class, unfiltered and filtered by each resource, the way each rendering spells it"""
    out = []
    for cid, ec in enumerate(w.classes):
        who = ec.python_class if static else ec
        rows = []
        # (an empty selection of resources — a list, a tuple — is a selection too: both renderings answer it alike)
        for rs in [None, [], ()] + [(r,) for r in w.res] + ([list(w.res)] if w.res else []):
            try:
                got = who.allInstances(resources=rs) if rs is not None else who.allInstances()
                rows.append(sorted(i for i in (w.oid(x) for x in got) if i is not None))
            except Exception as e:
                rows.append('raised ' + type(e).__name__)
        out.append(rows)
    return out


def queries(w):
    out = []
    for i in range(len(w.objs)):
        for q in ('frag', 'contents', 'allcontents', 'root'):
            try:
                out.append(w.query(f'q {q} {i}'))
            except Exception as e:
                out.append('raised ' + type(e).__name__)
    return out


def save_doc(w, tmp, fmt, tag):
    from pyecore.resources import ResourceSet, URI
    if fmt == 'json':
        from pyecore.resources.json import JsonResource
    rset = ResourceSet()
    if fmt == 'json':
        rset.resource_factory['json'] = lambda uri: JsonResource(uri)
    path = os.path.join(tmp, f'{tag}.{fmt}')
    res = rset.create_resource(URI(path))
    roots = [o for o in w.objs if o.eContainer() is None]
    for r in roots:
        res.append(r)
    res.save()
    for r in roots:
        res.remove(r)
    return path, roots


def load_doc(path, fmt, registry_value):
    from pyecore.resources import ResourceSet, URI
    rset = ResourceSet()
    if fmt == 'json':
        from pyecore.resources.json import JsonResource
        rset.resource_factory['json'] = lambda uri: JsonResource(uri)
    rset.metamodel_registry['http://verif/p'] = registry_value
    return rset.get_resource(URI(path))


def history_case(ctx, h, nops, tmp, model_in, expect):
    rng = common.sub_rng(ctx.seed, 'C13', 'hist', h)
    mm = store.gen_mm(rng)
    mm.dflt = {}
    for f in mm.feats:
        if not f.ref and not f.many and rng.random() < .5:
            mm.dflt[f.fid] = {'EInt': rng.choice([7, -1]), 'EString': 'dflt', 'EBoolean': True}[f.typ[1]]

    dstyle = DYN_STYLES[h % len(DYN_STYLES)]

    def dyn_builder(m):
        return build_dynamic(m, dstyle)
    w = store.World(mm, builder=dyn_builder)
    g = store.Gen(rng, mm, w)
    lines, recs = [], []
    for _ in range(nops):
        line = g.next_op()
        rec = w.apply(line)
        lines.append(line); recs.append((rec, w.dump(), list(w.notifs)))
    rep = {'history': h, 'metamodel': mm.lines(), 'ops': lines, 'dynamic_style': dstyle}
    statics = {}
    for style in STYLES:
        b = static_render.builder(style)
        w2 = store.World(mm, builder=b)
        statics[style] = (w2, b.last[0])
        for step, (l, (rec, dump, notifs)) in enumerate(zip(lines, recs)):
            r2 = w2.apply(l); d2 = w2.dump()
            ctx.evaluations += 1
            if r2 != rec:
                ctx.violate({'clause': 'result-differs', 'op': l.split()[0]}, f'`{l}`: dynamic `{rec}`, static ({style}) `{r2}`',
                            dict(rep, step=step)); break
            if d2 != dump:
                ctx.violate({'clause': 'state-differs', 'op': l.split()[0]}, f'`{l}`: dynamic state `{dump}`, static ({style}) `{d2}`',
                            dict(rep, step=step)); break
            if canon_notifs(l, w2.notifs) != canon_notifs(l, notifs):
                ctx.violate({'clause': 'notifications-differ', 'op': l.split()[0]},
                            f'`{l}`: dynamic notifications {notifs}, static ({style}) {w2.notifs}', dict(rep, step=step)); break
        else:
            if queries(w2) != queries(w):
                ctx.violate({'clause': 'views-differ'}, f'fragments / contents / roots differ between dynamic and static ({style})', rep)
            # (allInstances scans every object the process ever made: sampled)
            iv_d, iv_s = (instances_view(w, False), instances_view(w2, True)) if h % 2 == 0 else (None, None)
            if iv_d != iv_s:
                ctx.violate({'clause': 'allInstances-differ'}, f'allInstances (all, and per resource) differ: dynamic {iv_d} vs static ({style}) {iv_s}', rep)
    # both renderings against the Lean model driven by the description
    model_in.append('reset'); expect.append(None)
    for l in w.mm_lines():
        model_in.append(l); expect.append(None)
    w2 = statics['metaclass'][0]
    w3 = store.World(mm, builder=static_render.builder('metaclass'))
    for l in lines:
        model_in.append(l)
        expect.append((h, l, w3.apply(l) + ' | ' + w3.dump(), rep))
    for l in lines:
        ctx.count('op/' + l.split()[0])
    ctx.traces += 1
    ctx.nontriv(('hist', h))
    # (c) documents written by one side are loaded by the other into an isomorphic model
    if any(getattr(f, 'transient', False) for f in mm.feats):
        # objects under a transient containment are not written, references to them dangle in any document: not a
        # matter of static vs dynamic (the in-memory halves above cover these metamodels)
        ctx.count('documents/skipped-transient-containment')
        return
    for fmt in ('xmi', 'json'):
        try:
            before = models.canon([o for o in w.objs if o.eContainer() is None])
            pd, _ = save_doc(w, tmp, fmt, 'dyn')
            ps, _ = save_doc(w2, tmp, fmt, 'sta')
            loads = {
                'dynamic document loaded by the static metamodel': load_doc(pd, fmt, statics['metaclass'][1]),
                'static document loaded by the dynamic metamodel': load_doc(ps, fmt, w.pk),
                'static document loaded by the static metamodel': load_doc(ps, fmt, statics['metaclass'][1]),
            }
            ctx.evaluations += len(loads)
            for what, res in loads.items():
                d = models.diff_canon(before, models.canon(list(res.contents)))
                if d:
                    ctx.violate({'clause': 'document-not-isomorphic', 'format': fmt}, f'{fmt}: {what}: {d}', rep)
            ctx.count('documents/' + fmt)
        except Exception as e:
            import traceback
            tb = traceback.format_exc().strip().splitlines()
            ctx.violate({'clause': 'document-raised', 'format': fmt, 'error': type(e).__name__},
                        f'{fmt}: {type(e).__name__}: {str(e)[:150]} at {tb[-3].strip() if len(tb) > 2 else ""}', rep)


def history_pass(ctx):
    n = 250 if ctx.quick() else 800
    nops = 25 if ctx.quick() else 40
    tmp = tempfile.mkdtemp(prefix='verif_c13_')
    model_in, expect = [], []
    try:
        for h in range(n):
            mark = len(model_in)
            try:
                history_case(ctx, h, nops, tmp, model_in, expect)
            except common.InfraError:
                raise
            except Exception as e:
                # observing one of the renderings (reading a feature, dumping the state) raised: that is behaviour too
                import traceback
                tb = [l.strip() for l in traceback.format_exc().splitlines() if 'pyecore' in l]
                del model_in[mark:]; del expect[mark:]
                ctx.violate({'clause': 'rendering-raised', 'error': type(e).__name__},
                            f'history {h}: running / observing a rendering raised {type(e).__name__}: {str(e)[:120]} at {tb[-1] if tb else ""}',
                            {'history': h, 'dynamic_style': DYN_STYLES[h % len(DYN_STYLES)]})
    finally:
        shutil.rmtree(tmp, ignore_errors=True)
    out = common.run_driver('store', model_in)
    seen = set()
    for exp, got in zip(expect, out):
        if exp is None:
            continue
        h, line, want, rep = exp
        ctx.evaluations += 1
        if h not in seen and got != want:
            seen.add(h)
            ctx.diverge(f'history {h} `{line}`: model `{got[:300]}` vs static implementation `{want[:300]}`', rep)


def constructor_pass(ctx):
    """instances built with keyword arguments — the way generated code and loaders build them: the dynamic constructor
    and the constructor pyecoregen writes for a static class take the same values, falsy ones (0, '', False) included"""
    n = 60 if ctx.quick() else 1000
    for h in range(n):
        rng = common.sub_rng(ctx.seed, 'C13', 'ctor', h)
        mm = store.gen_mm(rng)
        mm.dflt = {}
        for f in mm.feats:
            if not f.ref and not f.many and rng.random() < .6:
                mm.dflt[f.fid] = {'EInt': rng.choice([7, -1]), 'EString': 'dflt', 'EBoolean': True}[f.typ[1]]
        mm.with_init = True
        wd = store.World(mm, builder=lambda m: build_dynamic(m, DYN_STYLES[h % len(DYN_STYLES)]))
        ws = store.World(mm, builder=static_render.builder('metaclass'))     # (zero-argument super() does not survive @EMetaclass rebuilding the class)
        rep = {'case': h, 'pass': 'constructor', 'metamodel': mm.lines()}
        for (cid, abstract, _s) in mm.classes:
            if abstract:
                continue
            attrs = [f for f in mm.feats_of(cid) if not f.ref and not f.many]
            if not attrs:
                continue
            for _ in range(3):
                kw = {}
                for f in attrs:
                    if rng.random() < .7:
                        kw[f.name] = rng.choice({'EInt': [0, 0, 1, 7, -1], 'EString': ['', '', 'a', 'dflt'], 'EBoolean': [False, False, True]}[f.typ[1]])
                outs = []
                for w in (wd, ws):
                    cls = w.classes[cid]
                    try:
                        o = (cls.python_class if w is ws else cls)(**kw)
                        outs.append([(f.name, o.eGet(f.name), o.eIsSet(f.name)) for f in attrs])
                    except Exception as e:
                        outs.append('raised ' + type(e).__name__)
                ctx.evaluations += 1
                ctx.nontriv(('ctor', h, cid, tuple(sorted(kw))))
                if outs[0] != outs[1]:
                    ctx.violate({'clause': 'constructor-differs'},
                                f'C{cid}(**{kw}): (feature, value, eIsSet) dynamic {outs[0]} vs static {outs[1]}', dict(rep, kwargs=repr(kw), cls=cid))
                    break


NARROW_SRC = '''
from pyecore.ecore import *
name = 'co'; nsURI = 'http://verif/co'; nsPrefix = 'co'
eClass = EPackage(name=name, nsURI=nsURI, nsPrefix=nsPrefix)
class Person(EObject, metaclass=MetaEClass):
    name = EAttribute(eType=EString)
    employer = EReference(upper={up_employer})
    desk = EReference()
class Employee(Person):
    pass
class Company(EObject, metaclass=MetaEClass):
    staff = EReference(upper={up_staff}, ordered=True, unique=True)
class Desk(EObject, metaclass=MetaEClass):
    user = EReference()
# the layout of generated code: types and opposites are bound once every class exists
Person.employer.eType = Company
Company.staff.eType = Employee
Person.employer.eOpposite = Company.staff
Person.desk.eType = Desk
Desk.user.eType = Employee
Person.desk.eOpposite = Desk.user
'''


def narrow_opposite_pass(ctx):
    """a reference declared on a supertype whose opposite is typed by a *subtype* (Person.employer <-> Company.staff : Employee):
    a plain Person offered from the Person side has to be refused on both renderings, with the same exception, state and
    notifications — the static side binds its types late (Company.staff.eType = Employee, as generated code does)"""
    from pyecore import ecore as E
    from pyecore.notification import EObserver
    paths = ['attr', 'eSet', 'append-other-side', 'assign-list', 'Set-command']
    for k in range(8 if ctx.quick() else 40):
        rng = common.sub_rng(ctx.seed, 'C13', 'narrow', k)
        up_e, up_s = rng.choice([(1, -1), (1, 1), (-1, -1)])
        # dynamic
        Person, Employee, Company, Desk = E.EClass('Person'), E.EClass('Employee'), E.EClass('Company'), E.EClass('Desk')
        Employee.eSuperTypes.append(Person)
        employer = E.EReference('employer', Company, upper=up_e)
        staff = E.EReference('staff', Employee, upper=up_s, eOpposite=employer)
        desk = E.EReference('desk', Desk)
        user = E.EReference('user', Employee, eOpposite=desk)
        Person.eStructuralFeatures.extend([E.EAttribute('name', E.EString), employer, desk])
        Company.eStructuralFeatures.append(staff)
        Desk.eStructuralFeatures.append(user)
        dyn = {'Person': Person, 'Employee': Employee, 'Company': Company, 'Desk': Desk}
        mod = types_module(NARROW_SRC.format(up_employer=up_e, up_staff=up_s))
        sta = {n: getattr(mod, n) for n in dyn}
        for path in paths:
            for who in ('Person', 'Employee'):
                outs = []
                for side in (dyn, sta):
                    bob, acme, d = side[who](), side['Company'](), side['Desk']()
                    log = []
                    for o in (bob, acme, d):
                        EObserver(o, notifyChanged=lambda n, log=log: log.append((n.kind.name, n.feature.name)))
                    try:
                        if path == 'attr':
                            if up_e == 1:
                                bob.employer = acme
                            else:
                                bob.employer.append(acme)
                            bob.desk = d
                        elif path == 'eSet':
                            bob.eSet('desk', d)
                        elif path == 'append-other-side':
                            if up_s == 1:
                                acme.staff = bob
                            else:
                                acme.staff.append(bob)
                        elif path == 'assign-list':
                            if up_e == 1:
                                continue
                            bob.employer = [acme]
                        else:
                            from pyecore.commands import Set, CommandStack
                            CommandStack().execute(Set(bob, 'desk', d))
                        res = 'ok'
                    except Exception as e:
                        res = type(e).__name__
                    emp = bob.employer
                    st = acme.staff
                    state = (res, [emp is acme] if up_e == 1 else [x is acme for x in emp],
                             [st is bob] if up_s == 1 else [x is bob for x in st], bob.desk is d, d.user is bob,
                             bob.eIsSet('employer'), bob.eIsSet('desk'), acme.eIsSet('staff'), d.eIsSet('user'), sorted(log))
                    outs.append(state)
                if len(outs) < 2:
                    continue
                ctx.evaluations += 1
                ctx.count('narrow-opposite/' + path)
                ctx.nontriv(('narrow', k, path, who))
                if outs[0] != outs[1]:
                    ctx.violate({'clause': 'result-differs', 'op': 'narrow-opposite'},
                                f'a {who} offered to Person.employer/desk (opposites typed Employee) via {path}: dynamic {outs[0]}, static {outs[1]}',
                                {'narrow': True, 'case': k, 'path': path, 'who': who, 'upper': [up_e, up_s]})
                    return


def subpackage_documents_pass(ctx, tmp):
    """a dynamic metamodel with a sub-package: a model that uses classes of both packages, saved as XMI and as JSON, is
    loaded again (top package and sub-package registered under their URIs) into the same model"""
    from pyecore import ecore as E
    from pyecore.resources import ResourceSet, URI
    from pyecore.resources.json import JsonResource
    for k in range(6 if ctx.quick() else 60):
        rng = common.sub_rng(ctx.seed, 'C13', 'subpackage', k)
        top = E.EPackage('shop', f'http://verif/c13/shop{k}', 'shop')
        sub = E.EPackage('parts', f'http://verif/c13/shop{k}/parts', 'parts')
        top.eSubpackages.append(sub)
        Order, Part, Assembly = E.EClass('Order'), E.EClass('Part'), E.EClass('Assembly')
        top.eClassifiers.append(Order); sub.eClassifiers.extend([Part, Assembly])
        Assembly.eSuperTypes.append(Part)
        Part.eStructuralFeatures.extend([E.EAttribute('code', E.EString), E.EReference('sub', Part, upper=-1, containment=True)])
        Order.eStructuralFeatures.extend([E.EAttribute('name', E.EString), E.EReference('items', Part, upper=-1, containment=True),
                                          E.EReference('main', Part)])
        o = Order(name='o')
        parts = [rng.choice([Part, Assembly])(code=f'c{i}') for i in range(rng.randint(2, 5))]
        o.items.extend(parts[:2])
        for p_ in parts[2:]:
            rng.choice(parts[:2]).sub.append(p_)
        o.main = rng.choice(parts)
        root = o if rng.random() < .6 else parts[0]        # (an object of the sub-package may be the root)
        if root is not o:
            o.items.remove(root)

        def rs():
            r = ResourceSet()
            r.resource_factory['json'] = lambda uri: JsonResource(uri)
            r.metamodel_registry[top.nsURI] = top
            r.metamodel_registry[sub.nsURI] = sub
            return r
        for fmt in ('xmi', 'json'):
            path = os.path.join(tmp, f'sub{k}.{fmt}')
            ctx.evaluations += 1
            ctx.count('subpackage/' + fmt)
            ctx.nontriv(('subpackage', k, fmt))
            try:
                before = models.canon([root])
                res = rs().create_resource(URI(path))
                res.append(root)
                res.save()
                res.remove(root)
                back = rs().get_resource(URI(path))
                after = models.canon(list(back.contents))
                d = models.diff_canon(before, after)
            except Exception as e:
                d = f'raised {type(e).__name__}: {str(e)[:100]}'
            if d:
                ctx.violate({'clause': 'cross-load', 'format': fmt, 'subpackage': True},
                            f'dynamic metamodel with a sub-package, root of class {root.eClass.name}: the {fmt} document it wrote does not load back: {d}',
                            {'subpackage': k, 'format': fmt})
                return


def extension_pass(ctx, tmp):
    """an *extension* metamodel (an .ecore document: a class that extends a class of the base metamodel, references typed by
    base classes) loaded on top of the base — once with the base defined statically (its module in the registry), once
    dynamically: the extension's class can be instantiated and used the same way on both (values of base classes accepted,
    ill-typed ones refused with BadValueError, inherited features there)"""
    from pyecore import ecore as E
    from pyecore.resources import ResourceSet, URI
    for k in range(8 if ctx.quick() else 80):
        rng = common.sub_rng(ctx.seed, 'C13', 'extension', k)
        mm = store.gen_mm(rng)
        concrete = [cid for (cid, abstract, _s) in mm.classes if not abstract]
        if not concrete:
            continue
        base = rng.choice(concrete)
        style = 'decorator' if k % 2 else 'metaclass'
        doc = ('<?xml version="1.0" encoding="UTF-8"?>\n<ecore:EPackage xmi:version="2.0" xmlns:xmi="http://www.omg.org/XMI" '
               'xmlns:xsi="http://www.w3.org/2001/XMLSchema-instance" xmlns:ecore="http://www.eclipse.org/emf/2002/Ecore" '
               f'name="ext" nsURI="http://verif/c13/ext{k}" nsPrefix="ext">\n'
               # (the supertype as an attribute, or as the href element EMF writes for a class of another document)
               + (f'  <eClassifiers xsi:type="ecore:EClass" name="Ext" eSuperTypes="http://verif/p#//C{base}">\n' if k % 3 == 0 else
                  f'  <eClassifiers xsi:type="ecore:EClass" name="Ext">\n    <eSuperTypes href="http://verif/p#//C{base}" xsi:type="ecore:EClass"/>\n') +
               f'    <eStructuralFeatures xsi:type="ecore:EReference" name="prey" upperBound="-1" eType="ecore:EClass http://verif/p#//C{base}"/>\n'
               f'    <eStructuralFeatures xsi:type="ecore:EReference" name="rival" eType="ecore:EClass http://verif/p#//C{base}"/>\n'
               '    <eStructuralFeatures xsi:type="ecore:EAttribute" name="tag" eType="ecore:EDataType http://www.eclipse.org/emf/2002/Ecore#//EString"/>\n'
               '  </eClassifiers>\n</ecore:EPackage>\n')
        path = os.path.join(tmp, f'ext{k}.ecore')
        open(path, 'w').write(doc)
        outcomes = {}
        for side in ('static', 'dynamic'):
            log = []
            try:
                if side == 'static':
                    _pk, classes, _f, mod, _src = static_render.build(mm, style)
                    registry_value, make_base = mod, getattr(mod, f'C{base}')
                else:
                    pk, classes, _f = build_dynamic(mm)
                    registry_value, make_base = pk, classes[base]
                rset = ResourceSet()
                rset.metamodel_registry['http://verif/p'] = registry_value
                Ext = rset.get_resource(URI(path)).contents[0].getEClassifier('Ext')
                if k % 4 >= 2:
                    _ = Ext.findEStructuralFeature('prey').eType.name      # (describing the metamodel first follows the proxies)
                e = Ext()
                log.append('instantiated')
                for step in ('prey.append', 'rival=', 'rival=ext', 'rival=bad', 'prey.append-bad', 'tag=', 'inherited'):
                    try:
                        if step == 'prey.append':
                            e.prey.append(make_base())
                        elif step == 'rival=':
                            e.rival = make_base()
                        elif step == 'rival=ext':
                            e.rival = Ext()
                        elif step == 'rival=bad':
                            e.rival = 'bad'
                        elif step == 'prey.append-bad':
                            e.prey.append(5)
                        elif step == 'tag=':
                            e.tag = 't'
                        else:
                            names = sorted(f.name for f in e.eClass.eAllStructuralFeatures())
                            for n_ in names:
                                getattr(e, n_)
                            log.append(f'features {names}')
                            continue
                        log.append(f'{step} ok')
                    except Exception as ex:
                        log.append(f'{step} {type(ex).__name__}')
                log.append(f'prey {len(e.prey)} rival-is-Ext {e.rival is not None and e.rival.eClass is Ext}')
            except Exception as ex:
                log.append(f'raised {type(ex).__name__}: {str(ex)[:60]}')
            outcomes[side] = log
        ctx.evaluations += 1
        ctx.count('extension/' + style)
        ctx.nontriv(('extension', k))
        if outcomes['static'] != outcomes['dynamic']:
            d = next(((a, b) for a, b in zip(outcomes['static'], outcomes['dynamic']) if a != b), (outcomes['static'][-1:], outcomes['dynamic'][-1:]))
            ctx.violate({'clause': 'extension'}, f'an .ecore extension of class C{base} loaded over the base: statically defined base ({style}): {d[0]}; '
                        f'dynamically defined base: {d[1]}', {'extension': k, 'style': style})
            return


def class_lists_pass(ctx):
    """the other lists of a class — annotations, type parameters — edited the same way on the EClass of a static class and
    on a dynamic EClass: same results, same exceptions"""
    from pyecore import ecore as E
    mod = types_module("from pyecore.ecore import *\nclass S(EObject, metaclass=MetaEClass):\n    x = EAttribute(eType=EString)\n")
    for k, what in enumerate(['annotation', 'type-parameter', 'two-annotations', 'annotation-clear']):
        outs = []
        for side in ('dynamic', 'static'):
            ec = E.EClass('S') if side == 'dynamic' else mod.S.eClass
            if side == 'dynamic':
                ec.eStructuralFeatures.append(E.EAttribute('x', E.EString))
            log = []
            try:
                if what == 'type-parameter':
                    tp = E.ETypeParameter('T')
                    ec.eTypeParameters.append(tp); log.append(len(ec.eTypeParameters))
                    ec.eTypeParameters.remove(tp); log.append(len(ec.eTypeParameters))
                else:
                    anns = [E.EAnnotation(f'src{i}') for i in range(2 if what != 'annotation' else 1)]
                    for a_ in anns:
                        ec.eAnnotations.append(a_)
                    log.append(len(ec.eAnnotations))
                    if what == 'annotation-clear':
                        ec.eAnnotations.clear()
                    else:
                        ec.eAnnotations.remove(anns[0])
                    log.append(len(ec.eAnnotations))
                log.append('ok')
            except Exception as e:
                log.append('raised ' + type(e).__name__)
                log.append(len(ec.eAnnotations))
            log.append(ec.python_class().x is None)
            outs.append(log)
            if side == 'static':          # (leave the static class as it was for the next round)
                for a_ in list(ec.eAnnotations):
                    try:
                        ec.eAnnotations.remove(a_)
                    except Exception:
                        pass
        ctx.evaluations += 1
        ctx.nontriv(('class-lists', k))
        if outs[0] != outs[1]:
            ctx.violate({'clause': 'result-differs', 'op': 'class-lists'},
                        f'{what} added to and removed from the class: dynamic {outs[0]}, static {outs[1]}', {'class_lists': what})
            return


def types_module(src):
    import types as _t
    static_render._count[0] += 1
    name = f'c13_narrow_{static_render._count[0]}'
    mod = _t.ModuleType(name)
    sys.modules[name] = mod
    try:
        exec(compile(src, name, 'exec'), mod.__dict__)
    finally:
        sys.modules.pop(name, None)
    return mod


def run(ctx):
    common.use_repo()
    ctx.rule = ('(a) generated metamodel descriptions (2-5 classes, inheritance incl. diamonds, abstract classes, attributes with '
                'defaults, references single/many, containment, opposite pairs, features bound under another key with name=, methods / '
                'static / class / dunder methods / functions without self, plain class attributes) rendered as dynamic EClasses (supertypes / features appended one by one, given in bulk with extend, or supertypes through the constructor) and as '
                'static classes in both styles (metaclass=MetaEClass, @EMetaclass): reflective description of every class vs the '
                'description and vs each other, and vs the Lean model of _promote (`driver static`); abstract instantiation; '
                '(b) generated histories (<= 25/40 public mutations, operands chosen on the live state) run on the dynamic rendering and '
                'replayed on both static renderings: result or exception of every call, full state after every call, notifications per '
                '(notifier, feature), fragments / contents / roots and allInstances (unfiltered and per resource) at the end; the static rendering also vs the Lean Store model driven '
                'by the description; (c) XMI and JSON documents written by either side loaded by the other: canonical isomorphism. '
                'non-trivial & distinct = classes with features or methods described + histories run on all renderings')
    describe_pass(ctx)
    history_pass(ctx)
    constructor_pass(ctx)
    narrow_opposite_pass(ctx)
    class_lists_pass(ctx)
    tmp = tempfile.mkdtemp(prefix='verif_c13_')
    try:
        subpackage_documents_pass(ctx, tmp)
        extension_pass(ctx, tmp)
    finally:
        shutil.rmtree(tmp, ignore_errors=True)
    ctx.assumptions += ['operations are compared by name, parameter names in order and required flags; the reflected `self` parameter of a '
                        'static method is written explicitly on the dynamic side (a dynamic EOperation without it describes the same method)',
                        'order of notifications across different (notifier, feature) pairs is not compared (delete() walks a set)']


def search(ctx):
    pass


def replay(ctx, data):
    common.use_repo()
    print('  ', data.get('what'))
    rp = data.get('replay', {})
    for k in ('metamodel', 'ops', 'source'):
        if k in rp:
            print('  ', k, ':', rp[k])
    return 1
