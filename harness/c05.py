"""C05 — observers can mirror the model from notifications alone (DESIGN.md section 4).

(a) slot level, exhaustive: every small slot state x every mutator x every index, on real features of a real EObject
    (single / list-like / set-like x attribute / reference): the emitted notifications (kind, old, new, in order) and
    the contents against the Lean `slotStep`.
(b) history level: observer on every object and every resource; an observer-side mirror of *every* feature (opposite
    ends included) is compared with the real contents after every call; resource observers must see what object
    observers see.
"""
import itertools
from . import common, store, storecheck, oracles, crossworld

KINDS = [('single', 'attr'), ('single', 'ref'), ('list', 'attr'), ('list', 'ref'), ('set', 'attr'), ('set', 'ref')]
_mm = {}


def slot_mm():
    if _mm:
        return _mm
    from pyecore.ecore import EClass, EAttribute, EReference, EInt
    A, B = EClass('A'), EClass('B')
    for (k, t) in KINDS:
        up, uniq = (1, True) if k == 'single' else (-1, k == 'set')
        name = f'{k}_{t}'
        A.eStructuralFeatures.append(EAttribute(name, EInt, upper=up, unique=uniq) if t == 'attr'
                                     else EReference(name, B, upper=up, unique=uniq))
    _mm.update(A=A, B=B)
    return _mm


class SlotImpl:
    def __init__(self, kind, typ, univ):
        from pyecore.notification import EObserver
        mm = slot_mm()
        self.kind, self.typ = kind, typ
        # attribute elements are 10.. so that they can never be mistaken for positions; 0 is EInt's default
        self.elems = [10 + i for i in range(univ)] if typ == 'attr' else [mm['B']() for _ in range(univ)]
        self.owner = mm['A']()
        self.name = f'{kind}_{typ}'
        self.notifs = []
        if kind == 'single' and typ == 'attr':
            setattr(self.owner, self.name, None)      # start from None like the model's empty slot
        EObserver(self.owner, notifyChanged=self.on)

    def num(self, v):
        if v is None:
            return []
        if isinstance(v, (list, tuple)) or hasattr(v, '_update_opposite'):
            return [self.num(x)[0] for x in v]
        for i, e in enumerate(self.elems):
            if e is v or (self.typ == 'attr' and e == v):
                return [i]
        return [99]

    def on(self, n):
        self.notifs.append(f"{n.kind.name}:{','.join(map(str, self.num(n.old)))}>{','.join(map(str, self.num(n.new)))}")

    def items(self):
        v = getattr(self.owner, self.name)
        return self.num(v) if self.kind != 'single' else self.num(v)

    def apply(self, line):
        ws = line.split()
        E = self.elems
        self.notifs = []
        c = getattr(self.owner, self.name) if self.kind != 'single' else None
        try:
            op = ws[0]
            if op == 'assign':
                if self.kind != 'single':
                    raise KeyError
                setattr(self.owner, self.name, None if ws[1] == 'none' else E[int(ws[1])])
            elif self.kind == 'single':
                raise KeyError
            elif op == 'append':
                c.append(E[int(ws[1])])
            elif op == 'insert':
                c.insert(int(ws[1]), E[int(ws[2])])
            elif op == 'remove':
                c.remove(E[int(ws[1])])
            elif op == 'pop':
                c.pop(int(ws[1]))
            elif op == 'clear':
                c.clear()
            elif op == 'delall':
                del c[:]            # every declaration: the model's `clear`
            elif op == 'extend':
                c.extend([E[int(x)] for x in ws[1:]])
            elif op == 'setitem':
                c[int(ws[1])] = E[int(ws[2])]
            elif op == 'delitem':
                del c[int(ws[1])]
            elif op == 'setslice':
                # the operand in the forms a caller may use: a list, a tuple, a generator
                vals = [E[int(x)] for x in ws[3:]]
                form = (len(self.items()) + len(vals)) % 3
                c[int(ws[1]):int(ws[2])] = vals if form == 0 else (tuple(vals) if form == 1 else (v for v in vals))
            elif op == 'extendself':
                # the collection extended by itself: what is reported is what came in, not the collection as it is afterwards
                if ws[1] == 'extend':
                    c.extend(c)
                else:
                    c += c
            elif op == 'setslicescalar':
                c[int(ws[1]):int(ws[2])] = E[int(ws[3])]      # no iterable: the list refuses it
            elif op == 'delslice3':
                del c[int(ws[1]):int(ws[2]):int(ws[3])]
            elif op == 'setslice3':
                c[int(ws[1]):int(ws[2]):int(ws[3])] = [E[int(x)] for x in ws[4:]]
            elif op == 'imul':
                c *= int(ws[1])
            out = 'ok'
        except Exception:
            out = 'err'
        return f"{out} items={','.join(map(str, self.items()))} notifs={';'.join(self.notifs)}"


def slot_ops(kind, n, univ):
    if kind == 'single':
        return ['assign none'] + [f'assign {x}' for x in range(univ)]
    W = range(-(n + 2), n + 3)
    ops = [f'append {x}' for x in range(univ)] + [f'insert {i} {x}' for i in W for x in range(univ)]
    ops += [f'remove {x}' for x in range(univ)] + [f'pop {i}' for i in W] + ['clear'] + (['delall'] if kind == 'set' else [])
    ops += [f'setitem {i} {x}' for i in W for x in range(univ)] + [f'delitem {i}' for i in W]
    ops += ['extend', 'extend 0', 'extend 0 1', 'extend 1 1 2', 'extend 2 0 2', 'extendself extend', 'extendself iadd']
    if kind == 'list':
        # `l[a:b] = ys` and `del l[a:b]` (ys empty), every pair of bounds
        ops += [f'setslice {a} {b}{ys}' for a in range(n + 2) for b in range(n + 2) for ys in ('', ' 0', ' 1 2', ' 0 0 1')]
        # extended slices `l[a:b:k]` (deleted; assigned with as many, fewer and more elements than leave), and `l *= n`
        ops += [f'delslice3 {a} {b} {k}' for a in range(n + 1) for b in range(n + 2) for k in (2, 3)]
        ops += [f'setslice3 {a} {b} {k}{ys}' for a in range(n + 1) for b in range(n + 2) for k in (2, 3)
                for ys in ('', ' 0', ' 1 2', ' 2 0 1')]
        ops += [f'imul {k}' for k in (-1, 0, 1, 2, 3)]
        # a slice assigned one element instead of an iterable of elements: refused, silently for the observers
        ops += [f'setslicescalar {a} {b} 0' for a in range(n + 1) for b in range(n + 2)]
    return ops


def slot_states(kind, univ, maxlen):
    if kind == 'single':
        return [()] + [(x,) for x in range(univ)]
    if kind == 'set':
        return [p for n in range(maxlen + 1) for p in itertools.permutations(range(univ), n)]
    return [p for n in range(maxlen + 1) for p in itertools.product(range(univ), repeat=n)]


def build(kind, st):
    if kind == 'single':
        return [f'assign {st[0]}'] if st else []
    return [f'append {x}' for x in st]


def slot_level(ctx):
    univ, maxlen = (3, 3) if ctx.quick() else (4, 4)
    model_in, expect = [], []
    for (kind, typ) in KINDS:
        for st in slot_states(kind, univ, maxlen if kind != 'list' else maxlen - (0 if ctx.quick() else 1)):
            pre = build(kind, st)
            for op in slot_ops(kind, len(st), univ):
                impl = SlotImpl(kind, typ, univ)
                recs = [impl.apply(l) for l in pre + [op]]
                ctx.evaluations += 1
                ctx.count(f'slot/{kind}-{typ}')
                model_in.append(f'reset {kind}'); expect.append(None)
                for l, r in zip(pre + [op], recs):
                    model_in.append('clear' if l == 'delall' else l); expect.append((kind, typ, pre + [op], r))
                if recs[-1].split(' ')[2] != 'notifs=':
                    ctx.nontriv((kind, typ, st, op))
                # slot-level oracle: replaying the notifications of the last call on the previous contents
                before = recs[-2].split(' ')[1][6:] if len(recs) > 1 else ''
                mirror = [int(x) for x in before.split(',') if x]
                for nt in recs[-1].split('notifs=')[1].split(';'):
                    if not nt:
                        continue
                    k, _, pl = nt.partition(':')
                    old, _, new = pl.partition('>')
                    old = [int(x) for x in old.split(',') if x]
                    new = [int(x) for x in new.split(',') if x]
                    if k in ('SET', 'UNSET'):
                        mirror = new
                    elif k in ('ADD', 'ADD_MANY'):
                        for x in new:
                            if not (kind == 'set' and x in mirror):
                                mirror.append(x)
                    else:
                        for x in old:
                            if x in mirror:
                                mirror.remove(x)
                real = [int(x) for x in recs[-1].split(' ')[1][6:].split(',') if x]
                if sorted(mirror) != sorted(real):
                    ctx.violate({'clause': 'slot-mirror', 'op': op.split()[0], 'kind': kind},
                                f'{kind}_{typ}: after `{op}` the slot holds {real}, the notifications replay to {mirror}',
                                {'slot': f'{kind}_{typ}', 'universe': univ, 'ops': pre + [op], 'records': recs})
    out = common.run_driver('slot', model_in)
    for line, exp, got in zip(model_in, expect, out):
        if exp is None:
            continue
        kind, typ, ops, want = exp
        if got != want and len(ctx.divergences) < 30:
            ctx.diverge(f'{kind}_{typ} `{line}`: model `{got}` vs implementation `{want}`', {'slot': f'{kind}_{typ}', 'ops': ops})


def slice_op(rng, g, w):
    """`del c[a:b]` / `c[a:b] = [...]` on a list-like collection (slices are a list's business; sets refuse them)"""
    cands = [(x, f) for f in w.mm.feats if f.many and not f.unique for x in g.objs_with(f) if len(w.slot(w.objs[x], f)) > 0]
    if not cands:
        return None
    x, f = rng.choice(cands)
    n = len(w.slot(w.objs[x], f))
    a = rng.randint(0, n)
    b = rng.randint(a, min(n, a + 3))
    if rng.random() < .5:
        return f'delslice {x} {f.fid} {a} {b}'
    vals = []
    for _ in range(rng.randint(0, 3)):
        v = g.value_for(f, x, True)
        if v is None or v[0] == 'n':
            break
        vals.append(v[0])
    if f.ref and len(set(vals)) != len(vals):
        return None
    return f'setslice {x} {f.fid} {a} {b} ' + ' '.join(vals)


def history_level(ctx, base=0, count=None, nops=None):
    n = count or (400 if ctx.quick() else 6000)
    nops = nops or (25 if ctx.quick() else 40)
    from pyecore.notification import EObserver
    for h in range(base, base + n):
        rng = common.sub_rng(ctx.seed, 'C05', h)
        mm = storecheck.shape_mm(rng, h // 3) if h % 3 == 0 else store.gen_mm(rng)
        w = store.World(mm)
        g = store.Gen(rng, mm, w)
        m = oracles.Mirror(w)
        seen_by_obj, seen_by_res = [], {}
        w.emission_hook = lambda n: seen_by_obj.append((n, n.notifier.eResource))
        lines = []
        for step in range(nops):
            line = g.next_op()
            if step % 5 == 4:
                line = slice_op(rng, g, w) or line
            lines.append(line)
            del seen_by_obj[:]
            for k in seen_by_res:
                seen_by_res[k] = []
            rec = w.apply(line)
            ctx.evaluations += 1
            ctx.count('op/' + line.split()[0])
            if line == 'res':
                r = w.res[-1]
                seen_by_res[id(r)] = []
                EObserver(notifyChanged=(lambda n, key=id(r): seen_by_res[key].append(n))).observe(r)
            for i in range(len(w.objs)):
                m.ensure(i)
            if line.startswith('new'):
                continue
            for nt in w.notifs:
                m.apply(nt)
            if len({(a, b) for (a, b, *_ ) in w.notifs}) > 1:
                ctx.nontriv((h, step))
            ps = m.compare()
            # resource observers: whatever an object's observer saw while the object was in a resource
            for (nobj, res) in seen_by_obj:
                if res is not None and id(res) in seen_by_res and not any(x is nobj for x in seen_by_res[id(res)]):
                    ps.append(('resource-observer', f'a {nobj.kind.name} notification of an object in a resource did not reach the resource observer', {}))
            for (clause, detail, extra) in ps[:1]:
                small = lines
                ctx.violate({'clause': clause, 'op': line.split()[0], **{k: v for k, v in extra.items()}},
                            f'{clause}: {detail} (after `{line}`)',
                            {'metamodel': w.mm_lines(), 'ops': small, 'detail': detail})
            if ps:
                break
        ctx.traces += 1
        if h < base + 2:
            ctx.sample({'metamodel': w.mm_lines(), 'ops': lines[:8], 'last_notifications': [list(x) for x in w.notifs]})


def equal_values_pass(ctx):
    """a single-valued attribute re-assigned a value that compares equal to the one it holds without being the same value
    (1 / True / 1.0 in an object-typed attribute, Decimal('1.0') / Decimal('1.00'), the same instant in another time
    zone): the feature changes — what it reads, what a save writes — and the change is reported"""
    import datetime, decimal
    from pyecore import ecore as E
    from pyecore.notification import EObserver
    tz = datetime.timezone(datetime.timedelta(hours=2))
    series = [(E.EJavaObject, [1, True, 1.0, 1]), (E.EBigDecimal, [decimal.Decimal('1.0'), decimal.Decimal('1.00'), decimal.Decimal('1')]),
              (E.EDate, [datetime.datetime(2020, 1, 1, 12, 0, tzinfo=datetime.timezone.utc), datetime.datetime(2020, 1, 1, 14, 0, tzinfo=tz)]),
              (E.EInt, [1, True, 1]), (E.EDouble, [0.0, -0.0, 0.0]), (E.EString, ['a', 'a' * 1, 'b'])]
    for k, (t, vals) in enumerate(series):
        A = E.EClass('A')
        A.eStructuralFeatures.append(E.EAttribute('v', t))
        a = A()
        mirror = [None]
        EObserver(a, notifyChanged=lambda n, m=mirror: m.__setitem__(0, n.new))
        for step, v in enumerate(vals):
            try:
                a.v = v
            except Exception:
                continue       # (whether True is an EInt value is C03's question)
            ctx.evaluations += 1
            ctx.nontriv(('equal-values', k, step))
            got = a.v
            same = lambda x, y: type(x) is type(y) and repr(x) == repr(y)
            if not same(mirror[0], got):
                ctx.violate({'clause': 'mirror', 'op': 'set', 'many': False, 'equal_values': True},
                            f'mirror: {t.name} attribute assigned {vals[:step + 1]!r} in turn: it reads {got!r}, the observer last heard {mirror[0]!r}',
                            {'equal_values': k, 'type': t.name})
                return


def listener_pass(ctx):
    """several observers on one object (and on its resource), some of which take themselves — or one another — off the
    list while they are being told: every observer that is still subscribed hears of every change exactly once"""
    from pyecore import ecore as E
    from pyecore.notification import EObserver
    from pyecore.resources.resource import Resource
    for k in range(30 if ctx.quick() else 400):
        rng = common.sub_rng(ctx.seed, 'C05', 'listeners', k)
        A = E.EClass('A')
        A.eStructuralFeatures.extend([E.EAttribute('n', E.EInt), E.EAttribute('xs', E.EInt, upper=-1, unique=False)])
        a = A()
        res = Resource()
        if rng.random() < .5:
            res.append(a)
        heard = {}
        observers = []

        equal_observers = k % 3 == 1      # observers that compare equal without being one (value objects: dataclasses, views)

        def make(i, kind):
            class Obs(EObserver):
                if equal_observers:
                    def __eq__(self, other):
                        return isinstance(other, EObserver)

                    def __hash__(self):
                        return 7

                def notifyChanged(self, n, i=i, kind=kind):
                    heard.setdefault(i, []).append((n.kind.name, n.feature.name, n.old, n.new if not isinstance(n.new, list) else tuple(n.new)))
                    if kind == 'leaves-once-told' and self in holder.listeners:
                        holder.listeners.remove(self)
                    if kind == 'removes-next' and i + 1 < len(observers) and observers[i + 1][0] in holder.listeners:
                        pass        # (taking *another* observer off is a decision about that observer: not judged here)
            return Obs()
        kinds = [rng.choice(['passive', 'passive', 'leaves-once-told']) for _ in range(rng.randint(2, 5))]
        if 'passive' not in kinds:
            kinds[-1] = 'passive'
        if equal_observers:
            kinds = ['passive'] * len(kinds)      # (taking one of several equal observers off a list is list.remove's business)
        on_resource = rng.random() < .3 and a.eResource is res
        holder = res if on_resource else a
        for i, kd in enumerate(kinds):
            o = make(i, kd)
            if i % 2:
                o.observe(holder)
            else:
                holder.listeners.append(o)
            observers.append((o, kd))
        nchanges = 0
        for _ in range(rng.randint(2, 6)):
            c = rng.random()
            if c < .5:
                a.n = rng.randint(1, 9)
            elif c < .8:
                a.xs.append(rng.randint(1, 9))
            elif len(a.xs):
                a.xs.pop()
            else:
                a.xs.extend([1, 2])
            nchanges += 1
        ctx.evaluations += 1
        ctx.count('listeners/' + ('resource' if on_resource else 'object'))
        ctx.nontriv(('listeners', k))
        for i, (o, kd) in enumerate(observers):
            got = len(heard.get(i, []))
            want = nchanges if kd == 'passive' else 1
            if got != want:
                ctx.violate({'clause': 'exactly-once', 'listeners': True},
                            f'exactly-once: observer {i} ({kd}) of the {"resource" if on_resource else "object"} heard {got} of {nchanges} '
                            f'changes, {want} expected (observers: {kinds})', {'listeners': k, 'kinds': kinds})
                return


def resource_observer_pass(ctx):
    """observers on the containing resource *only* (nobody listens to the objects themselves), objects at every depth of
    the containment tree — roots, children, grandchildren, with and without a sibling observer of their own: the resource's
    observers hear of every change of every object the resource contains, once, with that object as the notifier; objects
    outside the resource are not reported to it"""
    from pyecore import ecore as E
    from pyecore.notification import EObserver
    from pyecore.resources.resource import Resource
    for k in range(40 if ctx.quick() else 600):
        rng = common.sub_rng(ctx.seed, 'C05', 'resource-observer', k)
        A = E.EClass('A')
        A.eStructuralFeatures.extend([E.EAttribute('n', E.EInt), E.EAttribute('xs', E.EInt, upper=-1, unique=False),
                                      E.EReference('kids', A, upper=-1, containment=True), E.EReference('friend', A)])
        parts = E.EReference('parts', A, upper=-1, containment=True)
        whole = E.EReference('whole', A, eOpposite=parts)
        A.eStructuralFeatures.extend([parts, whole])
        res = Resource()
        inside, outside = [], []
        for _ in range(rng.randint(1, 2)):
            r = A()
            res.append(r)
            inside.append(r)
        for _ in range(rng.randint(1, 5)):
            parent = rng.choice(inside)
            c = A()
            parent.kids.append(c)
            inside.append(c)
        lone = A()
        outside.append(lone)
        c2 = A()
        lone.kids.append(c2)
        outside.append(c2)
        heard = []

        class Obs(EObserver):
            def notifyChanged(self, n):
                heard.append((id(n.notifier), n.kind.name, n.feature.name))
        if k % 3 == 0:
            # an earlier observer of the resource that listens once and leaves while it is being told: the one registered
            # after it still hears that very change
            class Once(EObserver):
                def notifyChanged(self, n):
                    if self in res.listeners:
                        res.listeners.remove(self)
            res.listeners.append(Once())
            if k % 6 == 0:
                res.listeners.append(Once())
        res.listeners.append(Obs())
        own = []
        for o in inside + outside:
            if rng.random() < .25:
                EObserver(o, notifyChanged=lambda n: own.append(n))
        want = []
        calls = []
        for _ in range(rng.randint(3, 8)):
            o = rng.choice(inside + inside + outside)
            c = rng.random()
            if c < .4:
                v = rng.randint(1, 9)
                while v == o.n:
                    v = rng.randint(1, 9)
                o.n = v
                ev = (id(o), 'SET', 'n')
            elif c < .6:
                o.xs.append(rng.randint(1, 9))
                ev = (id(o), 'ADD', 'xs')
            elif c < .75:
                # a new part, by append / insert / add: the part's own end (`whole`) is an implicit change of an object that
                # is inside the resource the moment it is made
                part = A()
                how = rng.choice(['append', 'insert', 'add'])
                if how == 'append':
                    o.parts.append(part)
                elif how == 'insert':
                    o.parts.insert(0, part)
                else:
                    o.parts.add(part)
                is_in = any(o is x for x in inside)
                (inside if is_in else outside).append(part)
                calls.append(f'parts.{how} of a new object on an object {"inside" if is_in else "outside"} the resource')
                if is_in:
                    want += [(id(part), 'SET', 'whole'), (id(o), 'ADD', 'parts')]
                continue
            else:
                t = rng.choice(inside + outside)
                if o.friend is t:
                    continue
                o.friend = t
                ev = (id(o), 'SET', 'friend')
            depth, p = 0, o
            while p.eContainer() is not None:
                depth, p = depth + 1, p.eContainer()
            calls.append(f'{ev[1]} {ev[2]} on an object at depth {depth} {"inside" if any(o is x for x in inside) else "outside"} the resource')
            if any(o is x for x in inside):
                want.append(ev)
        ctx.evaluations += 1
        ctx.nontriv(('resource-observer', k))
        ctx.count('resource-observer/changes', len(want))
        if heard != want:
            ctx.violate({'clause': 'exactly-once', 'listeners': 'resource-only'},
                        f'the observer of the resource heard {len(heard)} changes where {len(want)} happened inside it '
                        f'(calls: {calls})', {'resource_observer': k, 'calls': calls})
            return


def self_opposite_pass(ctx):
    """a many-valued reference that is its own opposite (friends), objects that may be their own friend, an observer on
    every object: the mirror kept from the notifications alone (a multiset per object) equals the real contents after every
    call — append, remove, clear, `del`, whole assignment, delete() — and is never told to remove what it does not hold"""
    from collections import Counter
    from pyecore import ecore as E
    from pyecore.notification import EObserver, Kind
    for k in range(60 if ctx.quick() else 1500):
        rng = common.sub_rng(ctx.seed, 'C05', 'self-opposite', k)
        P = E.EClass('P')
        fr = E.EReference('friends', P, upper=-1, unique=k % 4 != 3)
        P.eStructuralFeatures.append(fr)
        fr.eOpposite = fr
        objs = [P() for _ in range(rng.randint(2, 4))]
        mirror = {id(o): Counter() for o in objs}
        complaints = []

        def tell(n):
            m = mirror[id(n.notifier)]
            if n.feature is not fr:
                return
            gone = [n.old] if n.kind is Kind.REMOVE else (list(n.old) if n.kind is Kind.REMOVE_MANY else [])
            come = [n.new] if n.kind is Kind.ADD else (list(n.new) if n.kind is Kind.ADD_MANY else [])
            for v in gone:
                if m[id(v)] <= 0:
                    complaints.append(f'{n.kind.name} names an element the mirror does not hold')
                else:
                    m[id(v)] -= 1
            for v in come:
                # (a unique feature is mirrored as a set: being told again of an element it holds changes nothing)
                m[id(v)] = 1 if fr.unique else m[id(v)] + 1
        for o in objs:
            EObserver(o, notifyChanged=tell)
        calls = []
        for step in range(rng.randint(3, 9)):
            o = rng.choice(objs)
            t = rng.choice(objs)
            c = rng.random()
            try:
                if c < .45:
                    if fr.unique and any(v is t for v in o.friends):
                        continue
                    calls.append('append' + (' (itself)' if t is o else '')); o.friends.append(t)
                elif c < .6 and len(o.friends):
                    v = rng.choice(list(o.friends)); calls.append('remove' + (' (itself)' if v is o else '')); o.friends.remove(v)
                elif c < .72:
                    calls.append('clear'); o.friends.clear()
                elif c < .8:
                    calls.append('del'); del o.friends
                elif c < .9:
                    new = rng.sample(objs, rng.randint(0, len(objs)))
                    calls.append(f'assign {len(new)}' + (' (itself among them)' if any(v is o for v in new) else '')); o.friends = new
                else:
                    calls.append('delete()'); o.delete()
            except Exception as e:
                calls[-1] += f' raised {type(e).__name__}'
            ctx.evaluations += 1
            bad = complaints[0] if complaints else None
            if not bad:
                for x in objs:
                    real = Counter(id(v) for v in x.friends)
                    if +mirror[id(x)] != real:
                        bad = f'the mirror of an object holds {sum(mirror[id(x)].values())} friends, the object {sum(real.values())}'
                        break
            if bad:
                ctx.violate({'clause': 'mirror', 'self_opposite': True, 'unique': bool(fr.unique)},
                            f'mirror (a reference that is its own opposite, unique={fr.unique}) after {calls}: {bad}',
                            {'self_opposite': k, 'calls': calls})
                return
        ctx.nontriv(('self-opposite', k))


def negative_step_pass(ctx):
    """`l[a:b:k] = ys` with a negative step on list-like features: as many elements as the slice has — the observers' mirror
    follows; another number — the call is refused, nothing is reported, nothing changes"""
    from collections import Counter
    from pyecore import ecore as E
    from pyecore.notification import EObserver, Kind
    for k in range(40 if ctx.quick() else 600):
        rng = common.sub_rng(ctx.seed, 'C05', 'negative-step', k)
        A, B = E.EClass('A'), E.EClass('B')
        ref = k % 2 == 1
        f = E.EReference('xs', B, upper=-1, unique=False) if ref else E.EAttribute('xs', E.EInt, upper=-1, unique=False)
        A.eStructuralFeatures.append(f)
        a = A()
        pool = [B() for _ in range(8)] if ref else list(range(100, 108))
        n = rng.randint(2, 5)
        a.xs.extend(pool[:n])
        notifs = []
        EObserver(a, notifyChanged=lambda x: notifs.append(x))
        lo, hi, step = rng.choice([None, rng.randint(-n, n)]), rng.choice([None, rng.randint(-n - 1, n)]), rng.choice([-1, -1, -2, -3])
        size = len(range(*slice(lo, hi, step).indices(n)))
        right = rng.random() < .4
        m = size if right else rng.choice([x for x in range(0, size + 3) if x != size])
        ys = pool[n:n + m] if ref else [200 + i for i in range(m)]
        before = list(a.xs)
        model = list(before)
        try:
            model[lo:hi:step] = ys
            py_ok = True
        except ValueError:
            py_ok = False
        try:
            a.xs[lo:hi:step] = ys
            raised = None
        except Exception as e:
            raised = type(e).__name__
        ctx.evaluations += 1
        ctx.count('negative-step/' + ('right-size' if right else 'wrong-size'))
        ctx.nontriv(('negative-step', k))
        key = (lambda v: id(v)) if ref else (lambda v: v)
        mirror = Counter(key(v) for v in before)
        bad = None
        for x in notifs:
            gone = [x.old] if x.kind is Kind.REMOVE else (list(x.old) if x.kind is Kind.REMOVE_MANY else [])
            come = [x.new] if x.kind is Kind.ADD else (list(x.new) if x.kind is Kind.ADD_MANY else [])
            for v in gone:
                mirror[key(v)] -= 1
            for v in come:
                mirror[key(v)] += 1
        now = list(a.xs)
        if py_ok != (raised is None):
            bad = f'a list {"accepts" if py_ok else "refuses"} it, the feature {"raised " + raised if raised else "accepted it"}'
        elif [key(v) for v in now] != [key(v) for v in (model if py_ok else before)]:
            bad = 'the contents are not what a list holds afterwards'
        elif +mirror != Counter(key(v) for v in now):
            bad = f'the mirror kept from {len(notifs)} notification(s) does not hold what the feature holds'
        if bad:
            ctx.violate({'clause': 'mirror', 'negative_step': True, 'right_size': right},
                        f'mirror: l[{lo}:{hi}:{step}] = {m} element(s) on {n} ({"reference" if ref else "attribute"}; the slice has {size}): {bad}',
                        {'negative_step': k})
            return


def run(ctx):
    common.use_repo()
    ctx.rule = ('(a) exhaustive slot level: every slot state over a universe of 3 (quick) / 4 elements x every mutator x every index '
                'in [-(n+2), n+2], for single / list-like / set-like x attribute / reference features of a real EObject: emitted '
                'notifications (kind, old, new, order) and contents vs the Lean slotStep; (b) histories over generated metamodels '
                'with an observer on every object and resource: mirror of every feature (opposite ends included) vs real contents '
                'after every call. non-trivial & distinct = slot cases that emitted something + history steps that notified more than one (notifier, feature)')
    ctx.exhaustive = True
    slot_level(ctx)
    history_level(ctx)
    crossworld.notification_pass(ctx)
    listener_pass(ctx)
    resource_observer_pass(ctx)
    self_opposite_pass(ctx)
    negative_step_pass(ctx)
    equal_values_pass(ctx)
    ctx.assumptions += ['set.discard() is not in the property\'s operation list and bypasses notification (not judged)',
                        'notifications that report no change (SET old==new, ADD of a present element of a set) are not violations',
                        'order between different (notifier, feature) pairs is not compared']


def search(ctx):
    history_level(ctx, base=100000, count=3000, nops=50)


def replay(ctx, data):
    common.use_repo()
    r = data['replay']
    if 'slot' in r:
        kind, typ = r['slot'].split('_')
        impl = SlotImpl(kind, typ, r.get('universe', 4))
        for l in r['ops']:
            print(f'  {l:<16} -> {impl.apply(l)}')
        return 1
    mm = storecheck.mm_from_lines(r['metamodel'])
    w = store.World(mm)
    m = oracles.Mirror(w)
    bad = 0
    for l in r['ops']:
        rec = w.apply(l)
        for i in range(len(w.objs)):
            m.ensure(i)
        if not l.startswith('new'):
            for nt in w.notifs:
                m.apply(nt)
        print(f'  {l:<26} -> {rec} {w.notifs}')
        ps = m.compare()
        for p in ps:
            print('  ORACLE:', p)
        bad += len(ps)
    return 1 if bad else 0
