"""C11 — an object's URI fragment always resolves back to that object (DESIGN.md section 4)."""
from . import common, store, storecheck


def tree_mm(rng):
    """containment-centred metamodel: everything is of (a subclass of) class 0"""
    mm = store.MMDesc()
    mm.classes.append((0, False, []))
    if rng.random() < .5:
        mm.classes.append((1, False, [0]))
    c = lambda: rng.randrange(len(mm.classes))
    if rng.random() < .5:
        mm.add_pair(0, 0, True, False, rng.random() < .8, True, True)      # kids / parent
    else:
        mm.add_feat(owner=0, name='', ref=True, many=True, ordered=rng.random() < .8, unique=True, cont=True, typ=('cls', 0))
    mm.add_feat(owner=0, name='', ref=True, many=False, ordered=True, unique=True, cont=True, typ=('cls', 0))
    if rng.random() < .6:
        mm.add_feat(owner=c(), name='', ref=True, many=True, ordered=True, unique=True, cont=True, typ=('cls', c()))
    if rng.random() < .5:
        mm.add_feat(owner=0, name='', ref=True, many=rng.random() < .5, ordered=True, unique=True, cont=False, typ=('cls', 0))
    return mm


_EMPTY = {}


def loaded_empty(fmt):
    """a resource obtained by loading a saved empty model (no roots) in a fresh resource set"""
    import os, tempfile, shutil
    from pyecore.resources import ResourceSet, URI
    from pyecore.resources.json import JsonResource

    def rs():
        r = ResourceSet()
        r.resource_factory['json'] = lambda uri: JsonResource(uri)
        return r
    d = tempfile.mkdtemp(prefix='verif_c11_')
    try:
        p = os.path.join(d, f'empty.{fmt}')
        rs().create_resource(URI(p)).save()
        return rs().get_resource(URI(p))
    finally:
        shutil.rmtree(d, ignore_errors=True)


def run_history(ctx, h, nops, model_in, expect):
    rng = common.sub_rng(ctx.seed, 'C11', h)
    mm = tree_mm(rng) if h % 4 else store.gen_mm(rng)
    if not any(f.ref and f.cont and f.many for f in mm.feats):
        mm.add_feat(owner=0, name='', ref=True, many=True, ordered=rng.random() < .8, unique=True, cont=True, typ=('cls', rng.randrange(2)))
    w = store.World(mm, observe=False)
    if h % 5 == 1:
        # the resources of this history come from *loading* a document without roots (a saved empty model), then filled
        w.res_factory = lambda fmt=('xmi' if h % 2 else 'json'): loaded_empty(fmt)
        ctx.count('history/resources-loaded-from-an-empty-document')
    elif h % 5 == 2:
        # resources that address their objects by uuid: the positional fragment of an object is still a way to reach it
        def with_uuids():
            r = w.Resource()
            r.use_uuid = True
            return r
        w.res_factory = with_uuids
        ctx.count('history/resources-with-uuids')
    g = store.Gen(rng, mm, w, focus=[f for f in mm.feats if f.ref and f.cont and f.many], max_objs=12)
    # build phase: a resource, a handful of objects, a root with several children
    pre = ['res'] + [f'new {rng.choice([c[0] for c in mm.classes])}' for _ in range(rng.randint(5, 9))]
    fm = next(f for f in mm.feats if f.ref and f.cont and f.many)
    pre.append('rappend 0 0')
    if rng.random() < .5:
        pre += ['res', 'rappend 0 1'] if rng.random() < .5 else ['rappend 0 1']
    model_in.append('reset'); expect.append(None)
    for l in w.mm_lines():
        model_in.append(l); expect.append(None)
    lines = []
    for step in range(nops + len(pre) + 1):
        if step < len(pre):
            line = pre[step]
        elif step == len(pre):
            kids = [i for i, o in enumerate(w.objs) if i >= 2 and mm.conforms(w.classes.index(o.eClass), fm.typ[1])]
            owners = [i for i in (0, 1) if i < len(w.objs) and fm in mm.feats_of(w.classes.index(w.objs[i].eClass))]
            if not kids or not owners:
                continue
            line = f"extend {owners[0]} {fm.fid} " + ' '.join(f'o:{k}' for k in kids[:rng.randint(2, 6)])
        else:
            line = g.next_op()
            if rng.random() < .05 and w.res:
                line = f'rappend {rng.randrange(len(w.res))} {rng.randrange(len(w.objs))}'
        rec = w.apply(line)
        lines.append(line)
        model_in.append(line); expect.append((h, lines[:], rec + ' | ' + w.dump(), 'op'))
        ctx.evaluations += 1
        ctx.count('op/' + line.split()[0])
        frags = {}
        for i, o in enumerate(w.objs):
            q = f'q frag {i}'
            fr = w.query(q)
            model_in.append(q); expect.append((h, lines[:], fr, 'frag'))
            root = o.eRoot()
            res = root._eresource
            if res is None:
                continue
            k = w.res.index(res)
            q2 = f'q resolve {k} {fr}'
            got = w.query(q2)
            model_in.append(q2); expect.append((h, lines[:], got, 'resolve'))
            ctx.evaluations += 1
            depth = fr.count('@')
            ctx.count(f'depth/{min(depth, 4)}')
            if depth or len(res.contents) > 1:
                ctx.nontriv((h, step, i))
            if got != f'o:{i}':
                ctx.violate({'clause': 'resolve-frag', 'op': line.split()[0]},
                            f'resource.resolve({fr!r}) is {got}, not o{i}, after `{line}`',
                            {'metamodel': w.mm_lines(), 'ops': lines[:], 'object': i, 'fragment': fr})
            if (k, fr) in frags and frags[(k, fr)] != i:
                ctx.violate({'clause': 'injective', 'op': line.split()[0]},
                            f'o{i} and o{frags[(k, fr)]} share fragment {fr!r} in r{k} after `{line}`',
                            {'metamodel': w.mm_lines(), 'ops': lines[:], 'object': i, 'fragment': fr})
            frags[(k, fr)] = i
        if ctx.violations and ctx.violations[-1]['replay'].get('ops') == lines:
            break
    ctx.traces += 1
    if h < 2:
        ctx.sample({'metamodel': w.mm_lines(), 'ops': lines[:12],
                    'fragments': [w.query(f'q frag {i}') for i in range(len(w.objs))]})



def loaded_pass(ctx):
    """"... and for ids after a load": a model saved, loaded in a fresh resource set (XMI or JSON, one or several roots,
    positional references inside the file), then edited with position-shifting operations; after every edit every object
    under a root resolves to itself and fragments are pairwise distinct"""
    import os
    import shutil
    import tempfile
    from . import models
    from pyecore.resources import ResourceSet, URI
    from pyecore.resources.json import JsonResource
    n = 60 if ctx.quick() else 1500
    tmp = tempfile.mkdtemp(prefix='verif_c11_')
    try:
        for h in range(n):
            rng = common.sub_rng(ctx.seed, 'C11', 'loaded', h)
            sp = models.gen_mmspec(rng, h)
            keep_ids = h % 3 == 0
            if not keep_ids:
                for f in sp.feats:
                    f['id'] = False                   # positional fragments only
            m = models.gen_model(rng, sp, nobj=rng.randint(4, 10), values='safe')
            fmt = 'xmi' if h % 2 == 0 else 'json'
            rset = ResourceSet()
            rset.resource_factory['json'] = lambda uri: JsonResource(uri)
            path = os.path.join(tmp, f'm.{fmt}')
            res = rset.create_resource(URI(path))
            for r in m.roots:
                res.append(r)
            try:
                res.save()
                rset2 = ResourceSet()
                rset2.resource_factory['json'] = lambda uri: JsonResource(uri)
                rset2.metamodel_registry[m.pk.nsURI] = m.pk
                res2 = rset2.get_resource(URI(path))
            except Exception:
                ctx.count('loaded/setup-raised')
                continue
            edits = []

            def objs():
                out = []

                def walk(o):
                    out.append(o)
                    for c in o.eContents:
                        walk(c)
                for r in res2.contents:
                    walk(r)
                return out

            def judge(step):
                seen = {}
                for o in objs():
                    ctx.evaluations += 1
                    fr = o.eURIFragment()
                    if fr in seen:
                        return ('fragment-not-unique', f'two objects share the fragment {fr!r}')
                    seen[fr] = o
                    try:
                        got = res2.resolve(fr)
                    except Exception as e:
                        return ('resolve-raised', f'resolve({fr!r}) raised {type(e).__name__}: {str(e)[:80]}')
                    if got is not o:
                        return ('resolve-wrong', f'resolve({fr!r}) is another object ({getattr(got, "eURIFragment", lambda: got)()})')
                # "... and for ids after a load": an object whose class has an id attribute with a value that no other
                # object of the document carries is found by the text of that value
                if keep_ids and step == 'loaded':
                    byid = {}
                    for o in objs():
                        ida = next((a for a in o.eClass.eAllAttributes() if a.iD), None)
                        if ida is None or o.eGet(ida) is None or o.eGet(ida) == ida.get_default_value():
                            continue
                        byid.setdefault(ida._eType.to_string(o.eGet(ida)), []).append(o)
                    for text, os_ in byid.items():
                        if len(os_) != 1 or not text or text.startswith('/') or any(c in text for c in ' #'):
                            continue
                        ctx.evaluations += 1
                        ctx.count('loaded/id-lookups')
                        try:
                            got = res2.resolve(text)
                        except Exception as e:
                            return ('id-resolve-raised', f'resolve({text!r}) (the id of a loaded object) raised {type(e).__name__}: {str(e)[:60]}')
                        if got is not os_[0]:
                            return ('id-resolve-wrong', f'resolve({text!r}) is not the loaded object that carries this id')
                return None
            problem = judge('loaded')
            for step in range(8):
                if problem:
                    break
                conts = [(o, f) for o in objs() for f in o.eClass.eAllReferences() if f.containment and f.many]
                conts = [(o, f) for (o, f) in conts if len(o.eGet(f))]
                k = rng.random()
                if conts and k < .35:
                    o, f = rng.choice(conts); o.eGet(f).pop(0); edits.append(f'{o.eClass.name}.{f.name}.pop(0)')
                elif conts and k < .6:
                    o, f = rng.choice(conts); c = o.eGet(f); x = c[len(c) - 1]; c.remove(x); c.insert(0, x)
                    edits.append(f'{o.eClass.name}.{f.name}: last moved to the front')
                elif conts and k < .8:
                    o, f = rng.choice(conts)
                    cls = f.eType if not f.eType.abstract else None
                    if cls is None:
                        continue
                    o.eGet(f).insert(0, cls()); edits.append(f'{o.eClass.name}.{f.name}.insert(0, new)')
                elif len(res2.contents) > 1 and k < .9:
                    r0 = res2.contents[0]; res2.remove(r0); res2.append(r0); edits.append('first root moved to the end')
                else:
                    continue
                ctx.count('loaded/' + fmt + '/edit')
                problem = judge(step)
            ctx.traces += 1
            if edits:
                ctx.nontriv(('loaded', h))
            if problem:
                ctx.violate({'clause': problem[0], 'history': 'after-load', 'format': fmt},
                            f'{problem[0]} after loading a {fmt} document and {edits or "no edit"}: {problem[1]}',
                            {'case': h, 'loaded': True, 'format': fmt, 'edits': edits})
    finally:
        shutil.rmtree(tmp, ignore_errors=True)


def named_tree_lines(ctx, res, tag):
    """the named elements below every root of a metamodel resource as a tree for `driver ntree`, with the real fragment
    and the real resolution of every element"""
    lines, expect = ctx.extra.setdefault('ntree_in', []), ctx.extra.setdefault('ntree_expect', [])

    def named_kids(o):
        ks = []
        for f in sorted((f for f in o.eClass.eAllReferences() if f.containment and not f.derived), key=lambda f: f.name):
            v = o.eGet(f)
            ks += [c for c in (list(v) if f.many else ([v] if v is not None else [])) if getattr(c, 'name', None)]
        return ks
    for k, root in enumerate(res.contents):
        pos = {}

        def enc(o, p):
            pos[id(o)] = p
            ks = named_kids(o)
            out = [str(o.name).replace(' ', '_') or '_', str(len(ks))]
            for i, c in enumerate(ks):
                out += enc(c, p + [i])
            return out
        toks = enc(root, [])
        if any(' ' in str(getattr(o, 'name', '')) or '/' in str(getattr(o, 'name', '')) for o in [root] + list(root.eAllContents())):
            continue
        lines.append('tree ' + ' '.join(toks)); expect.append(None)
        prefix = '#/' if len(res.contents) == 1 else f'#/{k}'
        for o in root.eAllContents():
            if id(o) not in pos:
                continue
            p = pos[id(o)]
            real = o.eURIFragment()
            if not real.startswith(prefix + '/'):
                continue
            names = real[len(prefix) + 1:]
            lines.append('frag ' + '.'.join(map(str, p))); expect.append((tag, '#//' + names, f'fragment of {type(o).__name__} {o.name!r}'))
            try:
                back = res.resolve(real)
            except Exception:
                back = None
            lines.append('resolve ' + names)
            expect.append((tag, '.'.join(map(str, pos[id(back)])) if back is not None and id(back) in pos else 'none', f'resolve({real!r})'))


def metamodel_pass(ctx):
    """name-based fragments of metamodel elements: generated metamodels in resources with one to three root packages,
    edited (subpackage / class renamed, class moved to another package); after every edit, for every element under a
    root: `resource.resolve(e.eURIFragment()) is e`, fragments pairwise distinct"""
    from pyecore.resources import ResourceSet, URI
    from . import c10
    n = 40 if ctx.quick() else 800
    for h in range(n):
        rng = common.sub_rng(ctx.seed, 'C11', 'meta', h)
        nroots = rng.choice([1, 1, 2, 3])
        roots = []
        for k in range(nroots):
            pk = c10.gen_metamodel(rng, h * 10 + k)
            pk.name = f'{pk.name}_{k}'
            roots.append(pk)
        res = ResourceSet().create_resource(URI(f'/nonexistent/verif_c11_meta_{h}.ecore'))
        for pk in roots:
            res.append(pk)
        log = []
        if rng.random() < .35:
            # names are free text: 'org.example', 'Type.v2' (only '@feature.position' segments carry a position)
            from pyecore import ecore as E
            cands = [e for r in roots for e in r.eAllContents() if isinstance(e, (E.EPackage, E.EClassifier))]
            for e in rng.sample(cands, min(len(cands), rng.randint(1, 2))):
                e.name = f'{e.name}.v{rng.randint(1, 3)}'
                log.append(f'dotted name {e.name}')
                ctx.count('meta/dotted-name')
        for step in range(4):
            seen, problem = {}, None
            for r in res.contents:
                for e in [r] + list(r.eAllContents()):
                    ctx.evaluations += 1
                    try:
                        fr = e.eURIFragment()
                        got = res.resolve(fr)
                    except Exception as ex:
                        problem = ('meta-resolve', f'{type(e).__name__} {getattr(e, "name", "")!r}: resolving its fragment raised {type(ex).__name__}')
                        break
                    if got is not e:
                        problem = ('meta-resolve', f'{type(e).__name__} {getattr(e, "name", "")!r}: fragment {fr!r} resolves to '
                                   f'{type(got).__name__} {getattr(got, "name", None)!r}')
                        break
                    if fr in seen and seen[fr] is not e:
                        problem = ('meta-distinct', f'{type(e).__name__} {getattr(e, "name", "")!r} and {type(seen[fr]).__name__} '
                                   f'{getattr(seen[fr], "name", "")!r} share the fragment {fr!r}')
                        break
                    seen[fr] = e
                if problem:
                    break
            # the same state against the Lean model of name-based fragments (`Model/NamedTree.lean`)
            if not problem:
                named_tree_lines(ctx, res, (h, step))
            ctx.nontriv(('meta', h, step))
            ctx.count(f'meta/roots-{nroots}')
            if problem:
                ctx.violate({'clause': problem[0], 'roots': nroots}, f'{problem[0]} ({nroots} root package(s), after {log}): {problem[1]}',
                            {'case': h, 'pass': 'metamodel', 'roots': nroots, 'edits': log})
                break
            log += c10.restructure_pkg(rng, rng.choice(roots))
    lines, expect = ctx.extra.pop('ntree_in', []), ctx.extra.pop('ntree_expect', [])
    if lines:
        out = common.run_driver('ntree', lines)
        ctx.count('meta/named-tree-lines', len(lines))
        for line, exp, got in zip(lines, expect, out):
            if exp is None:
                continue
            tag, want, what = exp
            if got != want and len(ctx.divergences) < 10:
                ctx.diverge(f'metamodel case {tag}: {what}: model `{got}` vs implementation `{want}` (`{line}`)', {'case': list(tag)})


def equal_twins_pass(ctx):
    """objects that compare equal without being the same object (a static class defining __eq__ / __hash__ on a name): two
    equal roots of one resource, equal children in a list-like containment — every one of them has a fragment of its own
    that resolves to it"""
    from pyecore import ecore as E
    from pyecore.resources.resource import Resource
    for k in range(12 if ctx.quick() else 150):
        rng = common.sub_rng(ctx.seed, 'C11', 'twins', k)

        class Box(E.EObject, metaclass=E.MetaEClass):
            name = E.EAttribute(eType=E.EString)
            kids = E.EReference(upper=-1, containment=True, unique=False)

            def __init__(self, name=None):
                super().__init__()
                self.name = name

            def __eq__(self, other):
                return isinstance(other, Box) and other.name == self.name

            def __hash__(self):
                return hash(self.name)
        Box.kids.eType = Box
        r = Resource()
        roots = [Box(rng.choice('ab')) for _ in range(rng.randint(2, 4))]
        for x in roots:
            r.append(x)
        everything = list(roots)
        for _ in range(rng.randint(2, 6)):
            parent = rng.choice(everything)
            c = Box(rng.choice('kl'))
            parent.kids.append(c)
            everything.append(c)
        ctx.evaluations += 1
        ctx.nontriv(('twins', k))
        seen = {}
        for o in everything:
            try:
                fr = o.eURIFragment()
                got = r.resolve(fr)
            except Exception as e:
                fr, got = '?', f'raised {type(e).__name__}'
            if got is not o or fr in seen:
                ctx.violate({'clause': 'resolve', 'equal_twins': True},
                            f'resolve: among objects that compare equal (roots {[x.name for x in roots]}), fragment {fr!r} of an object '
                            f'{"is shared with another one" if fr in seen else "resolves to " + (got if isinstance(got, str) else "another object")}',
                            {'twins': k})
                return
            seen[fr] = o


def id_lookup_pass(ctx):
    """ids after a load, for id attributes of every textual type: each loaded object is found by the text of its id, in
    XMI and in JSON, and a reference written by id reaches it"""
    import os, shutil, tempfile
    from pyecore import ecore as E
    from pyecore.resources import ResourceSet, URI
    from pyecore.resources.json import JsonResource
    types = [(E.EString, ['k1', 'k2', 'k3']), (E.EInt, [12, 7, 300]), (E.ELong, [2 ** 40, 5, 6]), (E.EDouble, [1.5, 2.25, 3.0]),
             (E.EBoolean, [True]), (E.EIntegerObject, [0, 12, 7]), (E.EDoubleObject, [0.0, 1.5, 2.5])]      # (falsy ids are ids)
    tmp = tempfile.mkdtemp(prefix='verif_c11_')
    try:
        for k in range(28 if ctx.quick() else 280):
            rng = common.sub_rng(ctx.seed, 'C11', 'id-lookup', k)
            t, vals = types[k % len(types)]
            fmt = 'xmi' if (k // len(types)) % 2 == 0 else 'json'
            pk = E.EPackage('idp', f'http://verif/c11/id{k}', 'idp')
            A = E.EClass('A')
            pk.eClassifiers.append(A)
            A.eStructuralFeatures.extend([E.EAttribute('key', t, iD=True), E.EReference('kids', A, upper=-1, containment=True),
                                          E.EReference('ref', A)])

            def rs():
                r = ResourceSet()
                r.resource_factory['json'] = lambda uri: JsonResource(uri)
                r.metamodel_registry[pk.nsURI] = pk
                return r
            # (the root has an id of its own where the type offers a value that is not its default, and is referred to by it)
            rootkey = {'EString': 'k0', 'EInt': 99, 'ELong': 77, 'EDouble': 9.5, 'EIntegerObject': 99, 'EDoubleObject': 9.5}.get(t.name)
            has_rootkey = rootkey is not None and k % 3 != 2
            root = A(key=rootkey) if has_rootkey else A()
            objs = [A(key=v) for v in vals]
            root.kids.extend(objs)
            root.ref = rng.choice(objs)
            if has_rootkey:
                objs[-1].ref = root
            path = os.path.join(tmp, f'id{k}.{fmt}')
            res = rs().create_resource(URI(path))
            res.append(root)
            try:
                res.save()
                lr = rs().get_resource(URI(path))
                lroot = lr.contents[0]
            except Exception as e:
                ctx.violate({'clause': 'id-resolve', 'format': fmt, 'type': t.name},
                            f'id-resolve ({fmt}, id attribute of type {t.name}, root with an id: {has_rootkey}): saving the model and '
                            f'loading it again raised {type(e).__name__}: {e}', {'id_lookup': k, 'format': fmt, 'type': t.name})
                return
            ctx.count(f'id-lookup/{fmt}/{t.name}')
            ctx.nontriv(('id-lookup', k))
            problem = None
            for o in list(lroot.kids) + ([lroot] if has_rootkey else []):
                text = t.to_string(o.key)
                ctx.evaluations += 1
                try:
                    got = lr.resolve(text)
                except Exception as e:
                    got = f'raised {type(e).__name__}'
                if got is not o:
                    problem = f'resolve({text!r}) gives {got if isinstance(got, str) else "another object"}, not the loaded object whose id is {o.key!r}'
                    break
            if not problem:
                try:
                    tgt = lroot.ref
                    ok = tgt is not None and any(tgt.key == o.key and (tgt is o or getattr(tgt, "_wrapped", None) is o) for o in lroot.kids)
                except Exception as e:
                    ok = False
                if not ok:
                    problem = 'the reference written by id does not reach the loaded object of that id'
                elif has_rootkey and lroot.kids[-1].ref is not lroot:
                    problem = 'the reference to the root, written by its id, does not reach the loaded root'
            if problem:
                ctx.violate({'clause': 'id-resolve', 'format': fmt, 'type': t.name},
                            f'id-resolve ({fmt}, id attribute of type {t.name}): {problem}', {'id_lookup': k, 'format': fmt, 'type': t.name})
                return
    finally:
        shutil.rmtree(tmp, ignore_errors=True)


def failed_load_pass(ctx):
    """a resource whose own load() was refused half-way (created with create_resource, then load() raises on a broken
    reference at the end of the document) and that is then filled and edited: fragments resolve as for any other"""
    import os, shutil, tempfile
    from pyecore import ecore as E
    from pyecore.resources import ResourceSet, URI
    from pyecore.resources.json import JsonResource
    n = 20 if ctx.quick() else 300
    tmp = tempfile.mkdtemp(prefix='verif_c11_')
    try:
        for k in range(n):
            rng = common.sub_rng(ctx.seed, 'C11', 'failed-load', k)
            fmt = 'xmi' if k % 2 == 0 else 'json'
            pk = E.EPackage('fl', f'http://verif/fl{k}', 'fl')
            A = E.EClass('A')
            pk.eClassifiers.append(A)
            A.eStructuralFeatures.extend([E.EAttribute('name', E.EString), E.EReference('kids', A, upper=-1, containment=True),
                                          E.EReference('friend', A)])

            def rs():
                r = ResourceSet()
                r.resource_factory['json'] = lambda uri: JsonResource(uri)
                r.metamodel_registry[pk.nsURI] = pk
                return r
            root = A(name='root')
            kids = [A(name=f'k{i}') for i in range(rng.randint(3, 5))]
            root.kids.extend(kids)
            for c in kids:
                c.friend = rng.choice(kids)
            path = os.path.join(tmp, f'fl{k}.{fmt}')
            w = rs().create_resource(URI(path))
            w.append(root)
            w.save()
            text = open(path, encoding='utf-8').read()
            # the last reference of the document names a position that does not exist
            idx = text.rfind('@kids.')
            if idx < 0:
                continue
            text = text[:idx] + '@kids.99' + text[idx + len('@kids.') + 1:]
            open(path, 'w', encoding='utf-8').write(text)
            res = rs().create_resource(URI(path))
            try:
                res.load()
                ctx.count('failed-load/loaded-anyway')
                continue
            except Exception:
                pass
            ctx.evaluations += 1
            ctx.count(f'failed-load/{fmt}')
            # the resource object is still the caller's: it is (re)filled and edited
            for r0 in list(res.contents):
                res.remove(r0)
            top = A(name='top')
            res.append(top)
            cs = [A(name=f'c{i}') for i in range(4)]
            top.kids.extend(cs)
            for step in range(4):
                objs = [top] + list(top.kids)
                bad = None
                for o in objs:
                    try:
                        got = res.resolve(o.eURIFragment())
                    except Exception as e:
                        got = f'raised {type(e).__name__}'
                    if got is not o:
                        bad = f'{o.name}: fragment {o.eURIFragment()!r} resolves to {getattr(got, "name", got)!r}'
                        break
                ctx.nontriv(('failed-load', k, step))
                if bad:
                    ctx.violate({'clause': 'resolve', 'after_failed_load': True, 'format': fmt},
                                f'resolve: in a resource whose load() had been refused, after {step} edit(s): {bad}',
                                {'failed_load': k, 'format': fmt})
                    return
                top.kids.insert(0, A(name=f'n{step}'))
    finally:
        shutil.rmtree(tmp, ignore_errors=True)


def run(ctx):
    common.use_repo()
    failed_load_pass(ctx)
    id_lookup_pass(ctx)
    equal_twins_pass(ctx)
    n = 250 if ctx.quick() else 4000
    nops = 25 if ctx.quick() else 40
    ctx.rule = (f'{n} containment-heavy histories (<= {nops} ops: insert/remove/pop/move at all positions, 1-3 resources, roots '
                'appended/removed/moved); after every call, for every object under a root of a resource: '
                'resource.resolve(o.eURIFragment()) is o, fragments pairwise distinct; model `frag`/`resolve` compared with the '
                'real strings. non-trivial & distinct = (history, step, object) at depth >= 1 or in a resource with several roots')
    model_in, expect = [], []
    for h in range(n):
        run_history(ctx, h, nops, model_in, expect)
    out = common.run_driver('store', model_in)
    bad = set()
    for line, exp, got in zip(model_in, expect, out):
        if exp is None:
            continue
        h, lines, want, kind = exp
        if h in bad:
            continue
        if got != want:
            bad.add(h)
            ctx.diverge(f'history {h} `{line}` ({kind}): model `{got[:200]}` vs implementation `{want[:200]}`',
                        {'ops': lines, 'line': line})
    loaded_pass(ctx)
    metamodel_pass(ctx)
    ctx.rule += ('; plus models saved (XMI / JSON), loaded in a fresh resource set and then edited with position-shifting '
                 'operations (pop, move to front, insert, root moved): the same two clauses after every edit; plus generated metamodels in '
                 'resources with 1-3 root packages, edited (renames, a class moved to another package): the same two clauses for the '
                 'name-based fragments of every element')
    ctx.assumptions += ['uuid mode is C08',
                        'container chains are acyclic']


def search(ctx):
    model_in, expect = [], []
    for h in range(5000, 6500):
        run_history(ctx, h, 45, model_in, expect)
        if ctx.violations:
            return


def replay(ctx, data):
    common.use_repo()
    r = data['replay']
    mm = storecheck.mm_from_lines(r['metamodel'])
    w = store.World(mm, observe=False)
    for l in r['ops']:
        print(f'  {l:<26} -> {w.apply(l)}')
    bad = 0
    for i, o in enumerate(w.objs):
        fr = o.eURIFragment()
        res = o.eRoot()._eresource
        if res is None:
            continue
        got = w.query(f'q resolve {w.res.index(res)} {fr}')
        print(f'  o{i}: fragment {fr!r} resolves to {got}')
        bad += got != f'o:{i}'
    return 1 if bad else 0
