"""Generated metamodels and well-formed models for the serialization properties (C08 C09 C10 C14 C16 C18).

A metamodel: an EPackage with 3-6 classes (inheritance incl. diamonds, abstract classes), enumerations, attributes over
the built-in data types (single / many, ordered-unique variants, id attributes), containment references (single / many,
with or without a parent opposite), plain references and opposite pairs.
A model: a containment forest over the concrete classes, rooted in a resource, with attribute values from boundary
palettes and references between objects of the same resource.  Everything is derived from one PRNG; generators never
iterate a Python set of model objects.
"""
import datetime
import decimal
import math

STR_PALETTE = ['', ' ', 'a', 'ab c', ' lead', 'trail ', 'x\ty', 'l1\nl2', 'é', '中文', '𝔘', '<&>', '"q"', "'s'", ']]>', 'True',
               '0', '#frag', '/path', 'a.b', '%20', 'null', '[]', '{}']
SAFE_STR = ['a', 'b', 'cc', 'é', '中', '𝔘', '<&>', 'x.y', 'True', '0']


class MMSpec:
    """plain description (names only) so that the same metamodel can be instantiated several times"""

    def __init__(self):
        self.name = 'p'
        self.classes = []     # dict(name, abstract, supers=[names])
        self.enums = []       # dict(name, literals=[names])
        self.feats = []       # dict(owner, name, kind='attr'|'ref', type, many, ordered, unique, cont, opp, id, default_lit)


ATTR_TYPES = ['EString', 'EInt', 'EBoolean', 'EDouble', 'EFloat', 'ELong', 'EBigInteger', 'EIntegerObject', 'EBooleanObject',
              'EDate', 'EBigDecimal', 'EChar', 'EShort', 'EDoubleObject']


def gen_mmspec(rng, k=0, rich=True):
    sp = MMSpec()
    sp.name = f'p{k}'
    n = rng.randint(3, 6)
    for i in range(n):
        supers = []
        if i and rng.random() < .5:
            supers = [f'C{j}' for j in sorted(rng.sample(range(i), rng.randint(1, min(2, i))))]
        sp.classes.append(dict(name=f'C{i}', abstract=(rng.random() < .15 and i < n - 2), supers=supers))
    for e in range(rng.choice([0, 1, 1, 2])):
        sp.enums.append(dict(name=f'E{e}', literals=[f'L{e}{j}' for j in range(rng.randint(2, 4))]))
    cls = lambda: rng.choice(sp.classes)['name']
    fid = [0]

    def fname():
        fid[0] += 1
        return f'f{fid[0]}'
    # attributes
    for c in sp.classes:
        for _ in range(rng.choice([0, 1, 2, 3]) if rich else rng.choice([0, 1])):
            t = rng.choice(ATTR_TYPES + [e['name'] for e in sp.enums] * 2)
            many = rng.random() < .35
            lit = None
            if not many and rng.random() < .3:
                # a default given as literal text (what an .ecore file carries), for the types whose text is obvious
                lit = {'EString': 'anon', 'EInt': '7', 'EIntegerObject': '7', 'ELong': '-3', 'EBoolean': 'true',
                       'EBooleanObject': 'true', 'EDouble': '1.5', 'EDoubleObject': '1.5', 'EShort': '2'}.get(t)
            sp.feats.append(dict(owner=c['name'], name=fname(), kind='attr', type=t, many=many, ordered=True,
                                 unique=(rng.random() < .5) if many else True, cont=False, opp=None, id=False,
                                 default_lit=lit, late_type=(rng.random() < .25)))
    if rng.random() < .4:
        c = rng.choice(sp.classes)
        sp.feats.append(dict(owner=c['name'], name='ident', kind='attr', type=rng.choice(['EString', 'EString', 'EInt']), many=False, ordered=True, unique=True,
                             cont=False, opp=None, id=True, default_lit=None))
        # (an id may have a default, and an object may carry exactly that value: it is then not written)
        if sp.feats[-1]['type'] == 'EString' and rng.random() < .3:
            sp.feats[-1]['default_lit'] = 'id0'
    # containment (at least one many-valued so that forests can grow)
    for i in range(rng.randint(2, 4)):
        many = True if i == 0 else rng.random() < .6
        f = dict(owner=cls(), name=fname(), kind='ref', type=cls(), many=many, ordered=True, unique=True, cont=True, opp=None,
                 id=False, default_lit=None)
        sp.feats.append(f)
        if rng.random() < .4:
            g = dict(owner=f['type'], name=fname(), kind='ref', type=f['owner'], many=False, ordered=True, unique=True,
                     cont=False, opp=f['name'], id=False, default_lit=None)
            f['opp'] = g['name']
            sp.feats.append(g)
    # plain references and opposite pairs
    for _ in range(rng.randint(1, 4)):
        many = rng.random() < .6
        sp.feats.append(dict(owner=cls(), name=fname(), kind='ref', type=cls(), many=many, ordered=True, unique=True, cont=False,
                             opp=None, id=False, default_lit=None))
    for _ in range(rng.choice([0, 1, 1, 2])):
        a, b = cls(), cls()
        f = dict(owner=a, name=fname(), kind='ref', type=b, many=rng.random() < .5, ordered=True, unique=True, cont=False,
                 opp=None, id=False, default_lit=None)
        g = dict(owner=b, name=fname(), kind='ref', type=a, many=rng.random() < .5, ordered=True, unique=True, cont=False,
                 opp=f['name'], id=False, default_lit=None)
        f['opp'] = g['name']
        sp.feats += [f, g]
    return sp


def build(sp):
    """instantiate the description as a fresh dynamic EPackage -> (package, classes by name, features by (owner, name))"""
    from pyecore import ecore as E
    pk = E.EPackage(sp.name, f'http://verif/{sp.name}', sp.name)
    enums = {}
    for e in sp.enums:
        en = E.EEnum(e['name'], literals=e['literals'])
        # (a literal may carry a `literal` text beside its name, as Eclipse-authored metamodels do; documents name literals
        # by their names)
        for j, lit in enumerate(en.eLiterals):
            if (len(e['name']) + j) % 3 == 0:
                lit.literal = f'{lit.name.lower()} text'

        pk.eClassifiers.append(en)
        enums[e['name']] = en
    classes = {}
    for c in sp.classes:
        k = E.EClass(c['name'], abstract=c['abstract'])
        pk.eClassifiers.append(k)
        classes[c['name']] = k
    for c in sp.classes:
        for s in c['supers']:
            classes[c['name']].eSuperTypes.append(classes[s])
    feats = {}
    for f in sp.feats:
        up = -1 if f['many'] else 1
        if f['kind'] == 'attr':
            t = enums.get(f['type']) or getattr(E, f['type'])
            if f.get('late_type'):
                # the type assigned after the attribute exists, as a loader or a builder does
                ef = E.EAttribute(f['name'], upper=up, ordered=f['ordered'], unique=f['unique'], iD=f['id'])
                ef.eType = t
            else:
                ef = E.EAttribute(f['name'], t, upper=up, ordered=f['ordered'], unique=f['unique'], iD=f['id'])
            if f.get('default_lit') is not None:
                ef.defaultValueLiteral = f['default_lit']
        else:
            ef = E.EReference(f['name'], classes[f['type']], upper=up, ordered=f['ordered'], unique=f['unique'],
                              containment=f['cont'])
        classes[f['owner']].eStructuralFeatures.append(ef)
        feats[(f['owner'], f['name'])] = ef
    for f in sp.feats:
        if f['kind'] == 'ref' and f['opp'] and f['name'] < f['opp']:
            g = next(x for x in sp.feats if x['name'] == f['opp'])
            feats[(f['owner'], f['name'])].eOpposite = feats[(g['owner'], g['name'])]
    return pk, classes, feats


def all_supers(sp, cname):
    c = next(x for x in sp.classes if x['name'] == cname)
    out = []
    for s in c['supers']:
        if s not in out:
            out.append(s)
        for t in all_supers(sp, s):
            if t not in out:
                out.append(t)
    return out


def conforms(sp, cname, target):
    return cname == target or target in all_supers(sp, cname)


def feats_of(sp, cname):
    cs = [cname] + all_supers(sp, cname)
    return [f for f in sp.feats if f['owner'] in cs]


def attr_value(rng, sp, f, enums, safe=False):
    t = f['type']
    if t in [e['name'] for e in sp.enums]:
        return rng.choice(list(enums[t].eLiterals))
    if t in ('EString',):
        return rng.choice(SAFE_STR if safe else STR_PALETTE)
    if t == 'EChar':
        return rng.choice(['a', 'é', '<', ' '] if not safe else ['a', 'é'])
    if t in ('EInt', 'ELong', 'EBigInteger', 'EIntegerObject', 'EShort'):
        return rng.choice([0, 1, -1, 7, 2 ** 31, -2 ** 63, 10 ** 30, rng.randint(-1000, 1000)])
    if t in ('EBoolean', 'EBooleanObject'):
        return rng.random() < .5
    if t in ('EDouble', 'EFloat', 'EDoubleObject'):
        return rng.choice([0.0, -0.0, 1.5, -2.25, 1e-7, 1e22, 0.1, float('inf'), rng.uniform(-100, 100)])
    if t == 'EDate':
        tz = rng.choice([None, datetime.timezone.utc, datetime.timezone(datetime.timedelta(hours=2, minutes=30))])
        return datetime.datetime(rng.randint(1000, 9999), rng.randint(1, 12), rng.randint(1, 28), rng.randint(0, 23),
                                 rng.randint(0, 59), rng.randint(0, 59), rng.choice([0, 123456]), tz)
    if t == 'EBigDecimal':
        return rng.choice([decimal.Decimal('0'), decimal.Decimal('1.50'), decimal.Decimal('-1E+5'), decimal.Decimal('0.000001')])
    raise ValueError(t)


ODD_IDS = ['', '/x', '#x', 'a\tb', 'a\nb', '//@kids.0', 'x y', 'a#b', ' ', 'é', '0', 'id 1', '/']


class Model:
    """a generated model over a built metamodel"""

    def __init__(self, sp, pk, classes, feats):
        self.sp, self.pk, self.classes, self.feats = sp, pk, classes, feats
        self.objs = []        # in creation order
        self.roots = []


def gen_model(rng, sp, built=None, nobj=None, values='boundary', ids_unique=True):
    from pyecore import ecore as E
    pk, classes, feats = built or build(sp)
    enums = {e['name']: pk.getEClassifier(e['name']) for e in sp.enums}
    m = Model(sp, pk, classes, feats)
    concrete = [c['name'] for c in sp.classes if not c['abstract']]
    n = nobj or rng.randint(2, 10)
    for _ in range(n):
        cname = rng.choice(concrete)
        o = classes[cname]()
        o._vname = cname
        m.objs.append(o)
    # containment forest: each later object may become a child of an earlier one (so no cycle)
    for i in range(1, len(m.objs)):
        if rng.random() < .75:
            o = m.objs[i]
            cands = []
            for j in range(i):
                p = m.objs[j]
                for f in feats_of(sp, p._vname):
                    if f['kind'] == 'ref' and f['cont'] and conforms(sp, o._vname, f['type']):
                        if f['many'] or getattr(p, f['name']) is None:
                            cands.append((p, f))
            if cands:
                p, f = rng.choice(cands)
                if f['many']:
                    getattr(p, f['name']).append(o)
                else:
                    setattr(p, f['name'], o)
    m.roots = [o for o in m.objs if o.eContainer() is None]
    # attributes
    used_ids = set()
    for o in m.objs:
        for f in feats_of(sp, o._vname):
            if f['kind'] != 'attr':
                continue
            r = rng.random()
            if f['id']:
                if r < .8 and f['type'] == 'EInt':
                    # an id need not be a string: the reference carries its text
                    v = len(used_ids) * rng.choice([1, 1, 7]) + rng.choice([0, 1, 100])
                    while v in used_ids:
                        v += 1
                    used_ids.add(v)
                    setattr(o, f['name'], v)
                elif r < .8:
                    v = f'id{len(used_ids)}'
                    if values == 'boundary' and rng.random() < .3:
                        # ids that cannot stand for their object in a reference token (each distinct, once per model)
                        odd = [x for x in ODD_IDS if x not in used_ids]
                        if odd:
                            v = rng.choice(odd)
                    used_ids.add(v)
                    setattr(o, f['name'], v)
                continue
            if f['many']:
                if r < .25:
                    continue                                   # never touched
                c = getattr(o, f['name'])
                k = rng.choice([0, 1, 2, 3]) if values == 'boundary' else rng.choice([1, 2, 3])
                for _ in range(k):
                    c.append(attr_value(rng, sp, f, enums, safe=(values != 'boundary')))
                if k == 0 and rng.random() < .5:
                    c.append(attr_value(rng, sp, f, enums, safe=True)); c.pop()     # touched, then emptied
            else:
                if r < .3:
                    continue
                if r < .4 and values == 'boundary':
                    setattr(o, f['name'], None)
                else:
                    setattr(o, f['name'], attr_value(rng, sp, f, enums, safe=(values != 'boundary')))
    # references (non containment), through the public API; opposites are maintained by the library
    for o in m.objs:
        for f in feats_of(sp, o._vname):
            if f['kind'] != 'ref' or f['cont']:
                continue
            if f['opp'] and any(g['name'] == f['opp'] and g['cont'] for g in sp.feats):
                continue                                       # the parent end of a containment: set by containment
            targets = [t for t in m.objs if conforms(sp, t._vname, f['type'])]
            if not targets or rng.random() < .4:
                continue
            if f['many']:
                for t in rng.sample(targets, min(len(targets), rng.randint(1, 3))):
                    getattr(o, f['name']).append(t)
            else:
                setattr(o, f['name'], rng.choice(targets))
    return m


# ------------------------------------------------------------------------------------------------
# canonical dump: positions, classes, attribute values with their Python type, reference targets as positions

def same_value(a, b):
    if type(a) is not type(b):
        return False
    if isinstance(a, float):
        return (math.isnan(a) and math.isnan(b)) or a == b
    return a == b


def canon_value(v):
    from pyecore import ecore as E
    if isinstance(v, E.EEnumLiteral):
        return ('lit', v.name)
    if isinstance(v, float):
        return ('float', 'nan' if math.isnan(v) else repr(v + 0.0 if v != 0 else 0.0))
    if isinstance(v, datetime.datetime):
        return ('datetime', v.isoformat(), str(v.utcoffset()))
    if isinstance(v, decimal.Decimal):
        return ('Decimal', str(v.normalize()) if v.is_finite() else str(v))
    return (type(v).__name__, v)


def canon(roots):
    """isomorphism-invariant dump of the containment forest below `roots`"""
    order = []

    def walk(o):
        order.append(o)
        for f in sorted((f for f in o.eClass.eAllReferences() if f.containment), key=lambda f: f.name):
            v = o.eGet(f)
            for c in (v if f.many else ([v] if v is not None else [])):
                walk(c)
    for r in roots:
        walk(r)
    pos = {id(o): i for i, o in enumerate(order)}
    out = []
    for o in order:
        rec = {'class': o.eClass.name, 'attrs': {}, 'refs': {}}
        for f in sorted(o.eClass.eAllStructuralFeatures(), key=lambda f: f.name):
            if f.derived or f.transient:
                continue
            v = o.eGet(f)
            if f.is_attribute:
                rec['attrs'][f.name] = [canon_value(x) for x in v] if f.many else canon_value(v)
            else:
                tg = list(v) if f.many else ([v] if v is not None else [])
                rec['refs'][f.name] = [pos.get(id(getattr(t, '_wrapped', t) if hasattr(t, 'force_resolve') and not isinstance(t, type) else t),
                                               'outside') for t in tg]
        out.append(rec)
    return out


def diff_canon(a, b):
    if len(a) != len(b):
        return f'{len(a)} objects before, {len(b)} after'
    for i, (x, y) in enumerate(zip(a, b)):
        if x['class'] != y['class']:
            return f'object {i}: class {x["class"]} -> {y["class"]}'
        for k in x['attrs']:
            if x['attrs'][k] != y['attrs'].get(k):
                return f'object {i} ({x["class"]}).{k}: {x["attrs"][k]!r} -> {y["attrs"].get(k)!r}'
        for k in x['refs']:
            if x['refs'][k] != y['refs'].get(k):
                return f'object {i} ({x["class"]}).{k}: targets {x["refs"][k]} -> {y["refs"].get(k)}'
    return None
