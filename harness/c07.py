"""C07 — delete() leaves no dangling reference and touches nothing else (DESIGN.md section 4)."""
from . import common, store, histories, oracles, storecheck


def has_duplicates(world):
    for x in world.objs:
        for f in world.mm.feats_of(world.classes.index(x.eClass)):
            if f.ref and f.many and not f.unique:
                vals = world.slot(x, f)
                if any(vals[i] is vals[j] for i in range(len(vals)) for j in range(i)):
                    return True
    return False


def run_one(ctx, h, nops, triggers, model_in, expect):
    rng = common.sub_rng(ctx.seed, 'C07', 'hist', h, triggers)
    mm = storecheck.shape_mm(rng, h // 3) if h % 3 == 0 else store.gen_mm(rng)
    # references without opposite matter most here: make sure there are some
    if not any(f.ref and f.opp is None and not f.cont for f in mm.feats):
        many = rng.random() < .6
        mm.add_feat(owner=rng.randrange(2), name='', ref=True, many=many, ordered=True,
                    unique=(rng.random() < .5) if many else True, cont=False, typ=('cls', rng.randrange(2)))
    w = store.World(mm)
    g = store.Gen(rng, mm, w, triggers=triggers)
    lines, dup_seen = [], False
    for _ in range(nops):
        line = g.next_op()
        if line.startswith('delete'):
            continue
        w.apply(line)
        lines.append(line)
        dup_seen = dup_seen or has_duplicates(w)
    ctx.evaluations += len(lines)
    n = len(w.objs)
    mml = w.mm_lines()
    for i in range(n):
        for rec in (1, 0):
            w2 = store.World(mm, observe=False)
            for l in lines:
                w2.apply(l)
            snap = oracles.snapshot(w2)
            dline = f'delete {i} {rec}'
            via_proxy = (h + i + rec) % 3 == 0
            r = w2.apply(f'pdelete {i} {rec}' if via_proxy else dline)
            ctx.count('delete/through-proxy' if via_proxy else 'delete/direct')
            ctx.evaluations += 1
            ctx.count('delete/rec' if rec else 'delete/nonrec')
            D = [i] + (oracles.subtree(w2, snap, i) if rec else [])
            refs_in = sum(1 for xi in range(n) if xi not in D for vals in snap[xi][0].values()
                          for v in vals if any(v is w2.objs[d] for d in D))
            if refs_in or len(D) > 1:
                ctx.nontriv((h, i, rec))
            ctx.count('delete/with-incoming-refs' if refs_in else 'delete/isolated')
            ps = oracles.c07_delete(w2, snap, i, bool(rec)) if r.startswith('ok') else \
                [('delete-raised', f'delete raised {r}', {})]
            if not triggers:
                model_in.append('reset'); expect.append(None)
                for l in mml:
                    model_in.append(l); expect.append(None)
                for l in lines:
                    model_in.append(l); expect.append(None)
                model_in.append(dline)
                expect.append((h, mm, lines + [dline], r + ' | ' + w2.dump()))
            for (clause, detail, extra) in ps[:1]:
                sig = {'clause': clause, 'trigger': 'duplicate-in-list-like-reference' if dup_seen else 'none'}
                ctx.violate(sig, f'{clause}: {detail} (after `{dline}`)',
                            {'metamodel': mml, 'ops': lines + [dline], 'detail': detail})
    ctx.traces += 1
    if h < 2:
        ctx.sample({'metamodel': mml, 'ops': lines[:10], 'objects': n})


def derived_pass(ctx):
    """classes that also declare *derived* references (computed, not stored: the default collection of a many-valued one
    refuses every mutation): delete() has nothing to clear there, and must do the rest of its work"""
    from pyecore import ecore as E
    for k in range(24 if ctx.quick() else 200):
        rng = common.sub_rng(ctx.seed, 'C07', 'derived', k)
        X, A = E.EClass('X'), E.EClass('A')
        decl = []
        if k % 2 == 0 or rng.random() < .5:
            decl.append(E.EReference('dm', X, upper=-1, derived=True))
        if k % 2 == 1 or rng.random() < .3:
            decl.append(E.EReference('ds', X, derived=True))
        decl += [E.EReference('r', X), E.EReference('rs', X, upper=-1), E.EReference('kids', A, upper=-1, containment=True),
                 E.EReference('peer', A)]
        rng.shuffle(decl)
        A.eStructuralFeatures.extend(decl)
        if rng.random() < .5:
            B = E.EClass('B', superclass=(A,))
        else:
            B = A
        a, b, c = B(), A(), A()
        xs = [X() for _ in range(3)]
        a.r = xs[0]; a.rs.extend(xs[1:]); a.kids.append(c); b.peer = a; c.peer = a; c.r = xs[2]
        ctx.evaluations += 1
        ctx.count('delete/with-derived-reference')
        ctx.nontriv(('derived', k))
        desc = {'declared': [f.name for f in decl], 'subclass': B is not A}
        try:
            a.delete()
        except Exception as e:
            ctx.violate({'clause': 'delete-raised', 'trigger': 'none', 'derived': True},
                        f'delete-raised: delete() of an object whose class declares derived references '
                        f'{[f.name for f in decl if f.derived]} raised {type(e).__name__}: {e}', desc)
            return
        bad = []
        if b.peer is not None:
            bad.append('a survivor still refers to the deleted object')
        if a.r is not None or len(a.rs) or len(a.kids) or c.peer is not None or c.r is not None or c.eContainer() is not None:
            bad.append('the deleted objects still hold references / a container')
        if bad:
            ctx.violate({'clause': 'dangling', 'trigger': 'none', 'derived': True}, 'dangling: ' + '; '.join(bad), desc)
            return


def evolving_pass(ctx):
    """the metamodel changes between deletions: an object of a subclass is deleted (so that whatever is remembered about
    the class has been computed once), then a *supertype* gains a reference — plain, bidirectional or containment —, then
    another object of the subclass, using that reference, is deleted"""
    from pyecore import ecore as E
    for k in range(18 if ctx.quick() else 200):
        rng = common.sub_rng(ctx.seed, 'C07', 'evolving', k)
        Base, Mid, Sub, T = E.EClass('Base'), E.EClass('Mid'), E.EClass('Sub'), E.EClass('T')
        Mid.eSuperTypes.append(Base); Sub.eSuperTypes.append(Mid)
        Base.eStructuralFeatures.append(E.EReference('first', T))
        warm = Sub()
        warm.first = T()
        _ = warm.eContents
        warm.delete()
        kind = rng.choice(['plain', 'opposite', 'containment', 'many'])
        where = rng.choice([Base, Mid])
        if kind == 'plain':
            where.eStructuralFeatures.append(E.EReference('late', T))
        elif kind == 'many':
            where.eStructuralFeatures.append(E.EReference('late', T, upper=-1))
        elif kind == 'opposite':
            late = E.EReference('late', T)
            back = E.EReference('back', where, upper=-1, eOpposite=late)
            where.eStructuralFeatures.append(late); T.eStructuralFeatures.append(back)
        else:
            where.eStructuralFeatures.append(E.EReference('late', T, upper=-1, containment=True))
        x, t, outside = Sub(), T(), Sub()
        if kind in ('many', 'containment'):
            x.late.append(t)
        else:
            x.late = t
        if kind == 'containment':
            outside.first = t        # a reference from outside to the child that goes with x
        ctx.evaluations += 1
        ctx.count('evolving/' + kind)
        ctx.nontriv(('evolving', k))
        try:
            x.delete()
        except Exception as e:
            ctx.violate({'clause': 'delete-raised', 'trigger': 'none', 'evolving': True}, f'delete-raised: {type(e).__name__}: {e}', {'evolving': k})
            return
        bad = []
        held = list(x.late) if kind in ('many', 'containment') else ([x.late] if x.late is not None else [])
        if held:
            bad.append('the deleted object still holds its value in the reference its supertype gained')
        if kind == 'opposite' and any(v is x for v in t.back):
            bad.append('the other end still holds the deleted object')
        if kind == 'containment' and (t.eContainer() is not None or outside.first is not None):
            bad.append('the contained child was not deleted with it (container / outside reference remain)')
        if bad:
            ctx.violate({'clause': 'dangling', 'trigger': 'none', 'evolving': True},
                        f'dangling: {where.name} gained a {kind} reference after an instance of Sub had been deleted; deleting another: ' + '; '.join(bad),
                        {'evolving': k, 'kind': kind})
            return


def shrinking_pass(ctx):
    """the metamodel loses a reference between the moment it is used and a deletion: `a.ref = b`, `a.others.append(b)`, a
    second referrer, then the class (or a supertype) loses `ref` — by removal of the feature or of the supertype that
    declared it —, then `b.delete()`: it ends, and nobody refers to `b` through the references that remain"""
    from pyecore import ecore as E
    for k in range(24 if ctx.quick() else 300):
        rng = common.sub_rng(ctx.seed, 'C07', 'shrinking', k)
        Base, A, B = E.EClass('Base'), E.EClass('A'), E.EClass('B')
        A.eSuperTypes.append(Base)
        where = rng.choice([Base, A])
        many_lost = rng.random() < .4
        lost = E.EReference('lost', B, upper=-1 if many_lost else 1)
        where.eStructuralFeatures.append(lost)
        A.eStructuralFeatures.extend([E.EReference('others', B, upper=-1), E.EReference('one', B)])
        a, a2, b, b2 = A(), A(), B(), B()
        for x in (a, a2):
            if many_lost:
                x.lost.extend([b2, b])
            else:
                x.lost = b
            x.others.extend([b2, b])
            x.one = b
        how = rng.choice(['feature-removed', 'supertype-removed']) if where is Base else 'feature-removed'
        if how == 'feature-removed':
            where.eStructuralFeatures.remove(lost)
        else:
            A.eSuperTypes.remove(Base)
        ctx.evaluations += 1
        ctx.count(f'shrinking/{how}/{"many" if many_lost else "single"}')
        ctx.nontriv(('shrinking', k))
        rep = {'shrinking': k, 'how': how, 'many': many_lost, 'declared_on': where.name}
        try:
            b.delete()
        except Exception as e:
            ctx.violate({'clause': 'delete-raised', 'trigger': 'none', 'evolving': True},
                        f'delete-raised: after {how} ({"many" if many_lost else "single"}-valued reference declared on {where.name}): '
                        f'{type(e).__name__}: {e}', rep)
            return
        left = [f'{n}.{f}' for n, x in (('a', a), ('a2', a2)) for f in ('others', 'one')
                if any(v is b for v in (list(x.eGet(f)) if f == 'others' else [x.eGet(f)]))]
        if left:
            ctx.violate({'clause': 'dangling', 'trigger': 'none', 'evolving': True},
                        f'dangling: after {how}, the deleted object is still held by {left}', rep)
            return


def self_opposite_pass(ctx):
    """a many-valued reference that is its own opposite (friends, neighbours), objects that may hold themselves in it, at
    any position: after `x.delete()` no other object holds x, x holds nobody, and the others' remaining friends are the
    ones they had"""
    from pyecore import ecore as E
    for k in range(40 if ctx.quick() else 800):
        rng = common.sub_rng(ctx.seed, 'C07', 'self-opposite', k)
        P = E.EClass('P')
        fr = E.EReference('friends', P, upper=-1, unique=k % 3 != 2)
        P.eStructuralFeatures.extend([E.EAttribute('name', E.EString), fr])
        fr.eOpposite = fr
        objs = [P(name=f'o{i}') for i in range(rng.randint(3, 5))]
        for _ in range(rng.randint(3, 8)):
            a, b = rng.choice(objs), rng.choice(objs)
            if not any(v is b for v in a.friends):
                a.friends.append(b)
        x = rng.choice(objs)
        before = {o.name: sorted(v.name for v in o.friends if v is not x) for o in objs if o is not x}
        held = [o.name for o in objs if o is not x and any(v is x for v in o.friends)]
        pos = [i for i, v in enumerate(x.friends) if v is x]
        ctx.evaluations += 1
        ctx.count('self-opposite/' + ('self-loop' if pos else 'no-self-loop'))
        ctx.nontriv(('self-opposite', k))
        rep = {'self_opposite': k, 'holders': held, 'self_loop_at': pos, 'friends_of_deleted': len(x.friends)}
        try:
            x.delete()
        except Exception as e:
            ctx.violate({'clause': 'delete-raised', 'trigger': 'none', 'self_opposite': True},
                        f'delete-raised: delete() of an object of a symmetric relation raised {type(e).__name__}: {e}', rep)
            return
        left = [o.name for o in objs if o is not x and any(v is x for v in o.friends)]
        after = {o.name: sorted(v.name for v in o.friends) for o in objs if o is not x}
        if left or len(x.friends):
            ctx.violate({'clause': 'dangling', 'trigger': 'none', 'self_opposite': True},
                        f'dangling: after delete() of an object of a symmetric relation (it held itself at {pos} of {rep["friends_of_deleted"]}): '
                        f'still held by {left}, still holds {len(x.friends)}', rep)
            return
        if after != before:
            ctx.violate({'clause': 'frame', 'trigger': 'none', 'self_opposite': True},
                        f'frame: the friends of the others changed beyond losing the deleted object: {before} -> {after}', rep)
            return


def slice_keep_pass(ctx):
    """a list-like reference without opposite (plain, containment) is given a slice that *keeps* some of the elements it
    replaces (they leave and come back in one call); every object is then deleted in turn: nobody holds it afterwards"""
    from pyecore import ecore as E
    for k in range(30 if ctx.quick() else 400):
        rng = common.sub_rng(ctx.seed, 'C07', 'slice-keep', k)
        A = E.EClass('A')
        cont = k % 2 == 1
        A.eStructuralFeatures.extend([E.EAttribute('name', E.EString),
                                      E.EReference('links', A, upper=-1, unique=False, containment=cont)])
        holder = A(name='h')
        pool = [A(name=f'p{i}') for i in range(5)]
        cur = rng.sample(pool, rng.randint(2, 4))
        holder.links.extend(cur)
        a_ = rng.randint(0, len(cur) - 1)
        b_ = rng.randint(a_ + 1, len(cur))
        kept = rng.sample(cur[a_:b_], rng.randint(1, b_ - a_))
        fresh = [p for p in pool if all(p is not c for c in cur)]
        new = kept + rng.sample(fresh, rng.randint(0, len(fresh)))
        rng.shuffle(new)
        try:
            holder.links[a_:b_] = new
        except Exception as e:
            ctx.count('slice-keep/assignment-raised/' + type(e).__name__)
            continue
        ctx.evaluations += 1
        ctx.count('slice-keep/' + ('containment' if cont else 'plain'))
        ctx.nontriv(('slice-keep', k))
        victim = rng.choice(kept)
        try:
            victim.delete()
        except Exception as e:
            ctx.violate({'clause': 'delete-raised', 'trigger': 'none', 'slice_keep': True},
                        f'delete-raised: {type(e).__name__}: {e}', {'slice_keep': k})
            return
        if any(v is victim for v in holder.links) or (cont and victim.eContainer() is not None):
            ctx.violate({'clause': 'dangling', 'trigger': 'none', 'slice_keep': True},
                        f'dangling: a {"containment" if cont else "plain"} list [{len(cur)} elements] was given, for the slice [{a_}:{b_}], '
                        f'{len(new)} elements of which {len(kept)} were in that slice already; one of those was then deleted and is still held',
                        {'slice_keep': k})
            return


def cross_opposite_pass(ctx):
    """two documents whose objects are paired by a bidirectional reference (many on one side, single on the other), both
    loaded in one resource set, nothing followed: the holder of the many end is deleted — its collection still holds
    unresolved proxies — and the objects of the other document, reached by navigating it, no longer point back at it"""
    import os, shutil, tempfile
    from pyecore import ecore as E
    from pyecore.resources import ResourceSet, URI
    from pyecore.resources.json import JsonResource
    tmp = tempfile.mkdtemp(prefix='verif_c07_')
    try:
        for k in range(12 if ctx.quick() else 120):
            rng = common.sub_rng(ctx.seed, 'C07', 'cross-opposite', k)
            fmt = 'xmi' if k % 2 == 0 else 'json'
            pk = E.EPackage('co', f'http://verif/c07/co{k}', 'co')
            A, B = E.EClass('A'), E.EClass('B')
            pk.eClassifiers.extend([A, B])
            outs = E.EReference('outs', B, upper=-1)
            back = E.EReference('back', A, eOpposite=outs)
            A.eStructuralFeatures.extend([E.EAttribute('name', E.EString), outs])
            B.eStructuralFeatures.extend([E.EAttribute('name', E.EString), back])

            def rs():
                r = ResourceSet()
                r.resource_factory['json'] = lambda uri: JsonResource(uri)
                r.metamodel_registry[pk.nsURI] = pk
                return r
            d = os.path.join(tmp, f'co{k}')
            os.makedirs(d)
            w = rs()
            pa, pb = os.path.join(d, f'a.{fmt}'), os.path.join(d, f'b.{fmt}')
            ra, rb = w.create_resource(URI(pa)), w.create_resource(URI(pb))
            a, a2 = A(name='a'), A(name='a2')
            bs = [B(name=f'b{i}') for i in range(rng.randint(2, 4))]
            ra.append(a); ra.append(a2)
            for b in bs:
                rb.append(b)
            for b in rng.sample(bs, rng.randint(1, len(bs))):
                a.outs.append(b)
            try:
                ra.save(); rb.save()
                rset = rs()
                la = rset.get_resource(URI(pa)).contents[0]
                lbs = list(rset.get_resource(URI(pb)).contents)
            except Exception as e:
                ctx.count('cross-opposite/setup-raised/' + type(e).__name__)
                continue
            followed = rng.random() < .3
            if followed:
                _ = [x.name for x in la.outs]
            ctx.evaluations += 1
            ctx.count(f'cross-opposite/{fmt}/' + ('followed' if followed else 'unfollowed'))
            ctx.nontriv(('cross-opposite', k))
            rep = {'cross_opposite': k, 'format': fmt, 'followed': followed}
            try:
                la.delete()
            except Exception as e:
                # (the recorded finding of C14 — proxies hashed before they were followed — is about unique collections that
                # have been followed; an unfollowed collection has no such element)
                if followed:
                    ctx.count('cross-opposite/followed-delete-raised/' + type(e).__name__)
                    continue
                ctx.violate({'clause': 'delete-raised', 'trigger': 'none', 'cross': True, 'opposite': True},
                            f'delete-raised: {type(e).__name__}: {e}', rep)
                return
            left = []
            for b in lbs:
                v = b.__dict__.get('back')
                raw = v._value if v is not None else None
                tgt = getattr(raw, '_wrapped', None) if hasattr(raw, '_proxy_path') else raw
                if tgt is la or (hasattr(raw, '_proxy_path') and not raw.resolved and raw._proxy_path.endswith('#/0') ):
                    left.append(b.name)
            if left:
                ctx.violate({'clause': 'dangling', 'trigger': 'none', 'cross': True, 'opposite': True},
                            f'dangling: after delete() of the holder of the many end ({fmt}, its collection {"followed" if followed else "not followed"}), '
                            f'{left} of the other document still point back at it', rep)
                return
    finally:
        shutil.rmtree(tmp, ignore_errors=True)


def run(ctx):
    common.use_repo()
    derived_pass(ctx)
    cross_opposite_pass(ctx)
    self_opposite_pass(ctx)
    slice_keep_pass(ctx)
    evolving_pass(ctx)
    shrinking_pass(ctx)
    from . import crossworld
    crossworld.deletion_pass(ctx)
    n = 150 if ctx.quick() else 2500
    nops = 22 if ctx.quick() else 35
    ctx.rule = (f'{n} generated trigger-free histories (<= {nops} mutations; every metamodel has at least one reference without '
                'opposite) + n/3 histories that may put a value twice into a list-like reference; after each history every '
                'object is deleted in turn, recursively and not, directly or through a resolved proxy standing for it, each on a fresh replay of the history; oracle: scan of all '
                'features of all objects against a pre-delete snapshot. non-trivial & distinct = (history, object, recursive) '
                'where a survivor referred to a deleted object or the deleted subtree had more than one object')
    model_in, expect = [], []
    for h in range(n):
        run_one(ctx, h, nops, False, model_in, expect)
    for h in range(n // 3):
        run_one(ctx, h, nops, True, model_in, expect)
    out = common.run_driver('store', model_in)
    seen = set()
    for line, exp, got in zip(model_in, expect, out):
        if exp is None:
            continue
        h, mm, lines, want = exp
        if got != want and (h, line) not in seen:
            seen.add((h, line))
            if len(ctx.divergences) < 20:
                ctx.diverge(f'history {h} `{line}`: model `{got[:300]}` vs implementation `{want[:300]}`',
                            {'ops': lines, 'metamodel': mm.lines()})
    ctx.assumptions += ['Nd: no reference slot holds a value twice (the other case is the recorded finding F-C07-1)',
                        'delete() does not remove a root from its resource (the property does not ask for it)']


def search(ctx):
    model_in, expect = [], []
    for h in range(1000, 1600):
        run_one(ctx, h, 40, False, model_in, expect)
        if any(v['signature'].get('trigger') == 'none' for v in ctx.violations):
            return


def replay(ctx, data):
    common.use_repo()
    r = data['replay']
    mm = storecheck.mm_from_lines(r['metamodel'])
    w = store.World(mm, observe=False)
    for l in r['ops'][:-1]:
        print(f'  {l:<26} -> {w.apply(l)}')
    snap = oracles.snapshot(w)
    ws = r['ops'][-1].split()
    print(f"  {r['ops'][-1]:<26} -> {w.apply(r['ops'][-1])} | {w.dump()}")
    ps = oracles.c07_delete(w, snap, int(ws[1]), ws[2] == '1')
    for p in ps:
        print('  ORACLE:', p)
    return 1 if ps else 0
