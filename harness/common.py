"""Shared plumbing of the /verif checks: Lean build + axiom audit, model driver, evidence, verdicts.

Every check is `./check Cxx --tier quick|thorough` (see DESIGN.md section 2.3):
  extract -> prove (lake build) -> audit (#print axioms, forbidden tokens) -> correspond (model vs real pyecore)
  -> oracle (property on the real code) -> verdict.
"""
import hashlib
import json
import os
import random
import re
import subprocess
import sys
import time

VERIF = os.path.dirname(os.path.dirname(os.path.abspath(__file__)))
LEAN = os.path.join(VERIF, 'lean')
REPO = os.environ.get('VERIF_REPO', '/repo')
DRIVER = os.path.join(LEAN, '.lake', 'build', 'bin', 'driver')
ALLOWED_AXIOMS = {'propext', 'Classical.choice', 'Quot.sound'}
FORBIDDEN = re.compile(r'\bsorry\b|\badmit\b|^\s*axiom\s|native_decide|bv_decide|implemented_by|\bunsafe\s|maxHeartbeats\s+0')

TRUSTED_BASE = [
    "Lean 4.33.0 kernel (thorough tier: leanchecker re-check of the property modules)",
    "axioms: subset of {propext, Classical.choice, Quot.sound}, audited by #print axioms on every property theorem each run; no sorry/native_decide/bv_decide/own axioms",
    "hand-written Lean model tied to /repo by the differential correspondence check of this run (harness/*.py, ours) and, where stated, by tables regenerated from the source (harness/extract.py, ours)",
    "CPython, ordered_set outside the patched methods, lxml/json, the file system: modelled or exercised, not verified",
]


def use_repo():
    """Make `import pyecore` resolve to the tree under test (VERIF_REPO, default /repo)."""
    if REPO not in sys.path[:1]:
        sys.path.insert(0, REPO)
    import pyecore  # noqa
    here = os.path.realpath(os.path.dirname(pyecore.__file__))
    want = os.path.realpath(os.path.join(REPO, 'pyecore'))
    if here != want:
        raise InfraError(f'pyecore imported from {here}, expected {want}')


class InfraError(Exception):
    pass


def sub_rng(seed, *names):
    h = hashlib.sha256(('/'.join(str(n) for n in (seed,) + names)).encode()).digest()
    return random.Random(int.from_bytes(h[:8], 'big'))


class Ctx:
    def __init__(self, prop, tier, seed):
        self.prop = prop
        self.tier = tier
        self.seed = seed
        self.t0 = time.time()
        self.evaluations = 0
        self.nontrivial = set()
        self.samples = []
        self.dist = {}
        self.divergences = []      # model vs implementation disagreements (correspondence)
        self.violations = []       # oracle hits on the real code: dict(signature=..., what=..., replay=...)
        self.proof = {'build_ok': None, 'audit_ok': None, 'theorems': [], 'axioms': {}, 'log': ''}
        self.extra = {}
        self.assumptions = []
        self.exhaustive = False
        self.traces = 0
        self.rule = ''
        self.table_obligations = 0

    def quick(self):
        return self.tier == 'quick'

    def count(self, key, n=1):
        self.dist[key] = self.dist.get(key, 0) + n

    def nontriv(self, key):
        self.nontrivial.add(key if isinstance(key, (str, int, tuple)) else repr(key))

    def sample(self, s, cap=6):
        if len(self.samples) < cap:
            self.samples.append(s)

    def diverge(self, what, replay):
        self.divergences.append({'what': what, 'replay': replay})

    def violate(self, signature, what, replay):
        self.violations.append({'signature': signature, 'what': what, 'replay': replay})


# ---------------------------------------------------------------------------------------------
# Lean side

_built = False


def lake(*args, timeout=1800):
    p = subprocess.run(['lake', *args], cwd=LEAN, capture_output=True, text=True, timeout=timeout)
    return p.returncode, p.stdout + p.stderr


def lean_build(targets):
    """lake build of the given module targets and the driver (serialised by lake's own lock)."""
    rc, out = lake('build', *targets, 'driver')
    return rc == 0, out


def theorem_names(prop):
    path = os.path.join(LEAN, 'PyecoreModel', 'Properties', f'{prop}.lean')
    src = open(path).read()
    stack, names = [], []
    for line in strip_comments(src).splitlines():
        m = re.match(r'^namespace\s+(\S+)', line)
        if m:
            stack.append(m.group(1)); continue
        m = re.match(r'^end\s+(\S+)', line)
        if m and stack and stack[-1] == m.group(1):
            stack.pop(); continue
        m = re.match(r'^theorem\s+(' + prop + r'_\w+)', line)
        if m:
            names.append('.'.join(stack + [m.group(1)]))
    return names, src


def strip_comments(src):
    src = re.sub(r'/-.*?-/', '', src, flags=re.S)
    return re.sub(r'--.*', '', src)


def audit(ctx, extra_modules=()):
    """#print axioms for every property theorem + forbidden-token scan of the whole project."""
    prop = ctx.prop
    names, _ = theorem_names(prop)
    ctx.proof['theorems'] = names
    bad = []
    for root, _, files in os.walk(os.path.join(LEAN, 'PyecoreModel')):
        for f in files:
            if f.endswith('.lean'):
                p = os.path.join(root, f)
                for i, line in enumerate(strip_comments(open(p).read()).splitlines()):
                    if FORBIDDEN.search(line):
                        bad.append(f'{os.path.relpath(p, LEAN)}:{i + 1}: {line.strip()}')
    d = os.path.join(LEAN, '.lake', 'audit')
    os.makedirs(d, exist_ok=True)
    f = os.path.join(d, f'Audit{prop}.lean')
    with open(f, 'w') as fh:
        fh.write(f'import PyecoreModel.Properties.{prop}\n')
        for m in extra_modules:
            fh.write(f'import {m}\n')
        for n in names:
            fh.write(f'#print axioms {n}\n')
    rc, out = lake('env', 'lean', f)
    axioms = {}
    for m in re.finditer(r"'([^']+)' depends on axioms: \[([^\]]*)\]", out):
        axioms[m.group(1)] = [a.strip() for a in m.group(2).replace('\n', ' ').split(',') if a.strip()]
    for m in re.finditer(r"'([^']+)' does not depend on any axioms", out):
        axioms[m.group(1)] = []
    ctx.proof['axioms'] = axioms
    problems = list(bad)
    for n in names:
        if n not in axioms:
            problems.append(f'no axiom report for {n}')
        else:
            extra = set(axioms[n]) - ALLOWED_AXIOMS
            if extra:
                problems.append(f'{n} depends on {sorted(extra)}')
    if rc != 0:
        problems.append('audit file failed: ' + out[-500:])
    if not names:
        problems.append('no property theorem found')
    ctx.proof['audit_ok'] = not problems
    ctx.proof['audit_problems'] = problems
    return not problems


def leanchecker(modules):
    rc, out = lake('env', 'leanchecker', *modules, timeout=3600)
    return rc == 0, out


def prove(ctx, extra_targets=(), audit_modules=()):
    """Steps 2-3 of a check.  Returns True when every obligation is discharged."""
    targets = [f'PyecoreModel.Properties.{ctx.prop}', *extra_targets]
    ok, out = lean_build(targets)
    ctx.proof['build_ok'] = ok
    ctx.proof['log'] = out[-3000:] if not ok else ''
    if not ok:
        if not os.path.exists(DRIVER) or 'driver' in out and 'error' in out and 'Properties' not in out:
            pass
        return False
    if not audit(ctx, audit_modules):
        return False
    if not ctx.quick() and os.environ.get('VERIF_NO_LEANCHECKER') != '1':
        ok2, out2 = leanchecker(targets)
        ctx.proof['leanchecker_ok'] = ok2
        if not ok2:
            ctx.proof['log'] = out2[-3000:]
            return False
    return True


def run_driver(proto, lines):
    """Pipe `lines` to the native model driver; one output record per input line."""
    if not os.path.exists(DRIVER):
        raise InfraError('model driver not built')
    p = subprocess.run([DRIVER, proto], input='\n'.join(lines) + '\n', capture_output=True, text=True)
    if p.returncode != 0:
        raise InfraError(f'driver failed: {p.stderr[-500:]}')
    out = p.stdout.splitlines()
    if len(out) != len(lines):
        raise InfraError(f'driver returned {len(out)} records for {len(lines)} lines')
    return out


# ---------------------------------------------------------------------------------------------
# Known findings, verdict, evidence

def load_known():
    p = os.path.join(VERIF, 'known_findings.json')
    if not os.path.exists(p):
        return []
    return json.load(open(p)).get('findings', [])


def sig_matches(known_sig, sig):
    """Every key of the listed signature must be present with the same value."""
    return all(sig.get(k) == v for k, v in known_sig.items())


def write_replay(prop, name, obj):
    d = os.path.join(VERIF, 'replays')
    os.makedirs(d, exist_ok=True)
    path = os.path.join(d, f'{prop}-{name}.json')
    with open(path, 'w') as fh:
        json.dump(obj, fh, indent=1, default=str)
    return os.path.relpath(path, VERIF)


def finish(ctx, proof_ok, search=None):
    """Verdict + evidence.  `search(ctx)` is the extended failing-input search used when a proof obligation or
    the correspondence broke and the ordinary oracle pass found nothing."""
    prop = ctx.prop
    # replay files of earlier runs of this property would be mistaken for this run's
    import glob
    for old in glob.glob(os.path.join(VERIF, 'replays', f'{prop}-*.json')):
        try:
            os.remove(old)
        except OSError:
            pass
    known = [k for k in load_known() if k['property'] == prop]
    lines = []
    new = []
    seen_known = {}
    for v in ctx.violations:
        hit = next((k for k in known if sig_matches(k['signature'], v['signature'])), None)
        if hit:
            seen_known.setdefault(hit['id'], hit)
        else:
            new.append(v)
    broken = (not proof_ok) or bool(ctx.divergences)
    if broken and not new and search is not None:
        before = len(ctx.violations)
        search(ctx)
        for v in ctx.violations[before:]:
            hit = next((k for k in known if sig_matches(k['signature'], v['signature'])), None)
            if hit:
                seen_known.setdefault(hit['id'], hit)
            else:
                new.append(v)
    for k in seen_known.values():
        lines.append(f"KNOWN-FINDING: property={prop} {k['what']}")
    exit_code = 0
    reported = set()
    for i, v in enumerate(new):
        key = json.dumps(v['signature'], sort_keys=True)
        if key in reported:
            continue
        reported.add(key)
        if len(reported) > 5:
            break
        path = write_replay(prop, f'violation-{len(reported)}', {
            'property': prop, 'kind': 'failing-input', 'seed': ctx.seed, 'tier': ctx.tier,
            'signature': v['signature'], 'what': v['what'], 'replay': v['replay']})
        lines.append(f'VIOLATION property={prop} replay={path}')
        exit_code = 1
    if broken and not new:
        what = []
        if not proof_ok:
            what.append({'broken': 'proof obligations',
                         'build_ok': ctx.proof['build_ok'], 'audit_ok': ctx.proof['audit_ok'],
                         'audit_problems': ctx.proof.get('audit_problems'),
                         'theorems': ctx.proof['theorems'], 'log': ctx.proof['log']})
        if ctx.divergences:
            what.append({'broken': 'correspondence model vs implementation',
                         'count': len(ctx.divergences), 'first': ctx.divergences[:3]})
        path = write_replay(prop, 'unproved', {
            'property': prop, 'kind': 'no-failing-input-found', 'seed': ctx.seed, 'tier': ctx.tier,
            'no_longer_checks': what})
        lines.append(f'VIOLATION property={prop} replay={path} no-failing-input-found')
        exit_code = 1
    nthm = len(ctx.proof['theorems'])
    obligations = nthm + ctx.table_obligations + 1
    discharged = (nthm + ctx.table_obligations if proof_ok else 0) + (0 if ctx.divergences else 1)
    ev = {
        'property_id': prop, 'tier': ctx.tier, 'seed': ctx.seed, 'level': 'proof',
        'coverage': {
            'obligations': obligations, 'discharged': discharged,
            'checker_cmd': f'cd lean && lake build PyecoreModel.Properties.{prop} && lake env lean .lake/audit/Audit{prop}.lean'
                           + ('' if ctx.quick() else f' && lake env leanchecker PyecoreModel.Properties.{prop}'),
            'trusted_base': TRUSTED_BASE,
            'theorems': ctx.proof['theorems'], 'axioms': ctx.proof['axioms'],
            'evaluations': ctx.evaluations, 'distinct_nontrivial': len(ctx.nontrivial),
            'rule': ctx.rule, 'samples': ctx.samples, 'exhaustive': ctx.exhaustive,
            'traces_validated_against_impl': ctx.traces,
            'distribution': dict(sorted(ctx.dist.items())),
            'correspondence_divergences': len(ctx.divergences),
            'known_findings_reobserved': sorted(seen_known),
            **ctx.extra,
        },
        'assumptions': ctx.assumptions,
        'wall_s': round(time.time() - ctx.t0, 2),
        'violations': len(reported) + (1 if (broken and not new) else 0),
    }
    os.makedirs(os.path.join(VERIF, 'evidence'), exist_ok=True)
    with open(os.path.join(VERIF, 'evidence', f'{prop}.json'), 'w') as fh:
        json.dump(ev, fh, indent=1, default=str)
    for l in lines:
        print(l)
    print(f'[{prop}] tier={ctx.tier} seed={ctx.seed} proof_ok={proof_ok} theorems={nthm} '
          f'evaluations={ctx.evaluations} nontrivial={len(ctx.nontrivial)} divergences={len(ctx.divergences)} '
          f'oracle_hits={len(ctx.violations)} wall={ev["wall_s"]}s exit={exit_code}')
    return exit_code
