"""C19 — the reflective views agree with the model they describe (DESIGN.md section 4)."""
from . import common, store, storecheck, oracles
from .c11 import tree_mm


def independent_views(w):
    """eContents / eAllContents / eRoot recomputed from the primary state (containment slots, container pointers)"""
    snap = oracles.snapshot(w)
    out = {}
    for i, o in enumerate(w.objs):
        kids = []
        for fid, vals in snap[i][0].items():
            f = w.mm.feats[fid]
            if f.ref and f.cont:
                kids += [w.oid(v) for v in vals]
        below = oracles.subtree(w, snap, i)
        root, n = o, 0
        while root._container is not None and n < 100:
            root, n = root._container, n + 1
        out[i] = (sorted(kids), sorted(below), w.oid(root))
    return out


def meta_views(w):
    """metamodel-level views against an independent recomputation from eSuperTypes / eStructuralFeatures"""
    problems = []
    for cid, c in enumerate(w.classes):
        sup = w.mm.all_supers(cid)
        got = sorted(w.classes.index(x) for x in c.eAllSuperTypes())
        if got != sorted(sup):
            problems.append(('eAllSuperTypes', f'C{cid}: {got} vs {sorted(sup)}'))
        want_feats = sorted(f.fid for f in w.mm.feats_of(cid))
        got_feats = sorted(w.fid_of[id(f)] for f in c.eAllStructuralFeatures())
        if got_feats != want_feats:
            problems.append(('eAllStructuralFeatures', f'C{cid}: {got_feats} vs {want_feats}'))
        got_refs = sorted(w.fid_of[id(f)] for f in c.eAllReferences())
        if got_refs != [k for k in want_feats if w.mm.feats[k].ref]:
            problems.append(('eAllReferences', f'C{cid}: {got_refs}'))
        got_attrs = sorted(w.fid_of[id(f)] for f in c.eAllAttributes())
        if got_attrs != [k for k in want_feats if not w.mm.feats[k].ref]:
            problems.append(('eAllAttributes', f'C{cid}: {got_attrs}'))
        for k in want_feats:
            f = c.findEStructuralFeature(f'f{k}')
            if f is not w.feats[k]:
                problems.append(('findEStructuralFeature', f'C{cid}.f{k}'))
    return problems


def meta_edit_case(ctx, h, nedits):
    """metamodel-level views under edit sequences: every view of every class against a recomputation from the primary
    declarations (eSuperTypes, eStructuralFeatures) after every edit; lookups are made before each edit so that any
    cache is warm"""
    from pyecore import ecore as E
    rng = common.sub_rng(ctx.seed, 'C19-meta', h)
    n = rng.randint(3, 5)
    classes = [E.EClass(f'K{i}') for i in range(n)]
    for i in range(1, n):
        for j in rng.sample(range(i), rng.randint(0, min(2, i))):
            classes[i].eSuperTypes.append(classes[j])
    counter = [0]

    def new_feature():
        counter[0] += 1
        if rng.random() < .5:
            return E.EAttribute(f'g{counter[0]}', E.EString)
        return E.EReference(f'g{counter[0]}', rng.choice(classes), containment=rng.random() < .3, upper=rng.choice([1, -1]))

    for c in classes:
        for _ in range(rng.randint(0, 2)):
            c.eStructuralFeatures.append(new_feature())
    log = []

    def supers_of(c, seen=None):
        out = []
        for s_ in c.eSuperTypes:
            if s_ not in out:
                out.append(s_)
            for t in supers_of(s_):
                if t not in out:
                    out.append(t)
        return out

    def compare(when):
        for c in classes:
            sup = supers_of(c)
            want_feats = list(c.eStructuralFeatures)
            for s_ in sup:
                for f in s_.eStructuralFeatures:
                    if f not in want_feats:
                        want_feats.append(f)
            views = {
                'eAllSuperTypes': (set(c.eAllSuperTypes()), set(sup)),
                'eAllStructuralFeatures': (sorted(f.name for f in c.eAllStructuralFeatures()), sorted(f.name for f in want_feats)),
                'eAllAttributes': (sorted(f.name for f in c.eAllAttributes()), sorted(f.name for f in want_feats if isinstance(f, E.EAttribute))),
                'eAllReferences': (sorted(f.name for f in c.eAllReferences()), sorted(f.name for f in want_feats if isinstance(f, E.EReference))),
            }
            for k, (got, want) in views.items():
                if got != want:
                    return (k, f'{c.name}.{k} is {got}, declarations say {want} ({when})')
            names = {f'g{i}' for i in range(1, counter[0] + 1)} | {'renamed'}
            for nm in sorted(names):
                got = c.findEStructuralFeature(nm)
                want = next((f for f in want_feats if f.name == nm), None)
                if got is not want:
                    return ('findEStructuralFeature', f'{c.name}.findEStructuralFeature({nm!r}) is {got}, declarations say {want} ({when})')
        return None

    bad = compare('initially')
    for step in range(nedits):
        if bad:
            break
        k = rng.random()
        c = rng.choice(classes)
        try:
            if k < .3:
                c.eStructuralFeatures.append(new_feature()); log.append(f'{c.name}.add-feature')
            elif k < .55 and len(c.eStructuralFeatures):
                f = rng.choice(list(c.eStructuralFeatures)); c.eStructuralFeatures.remove(f); log.append(f'{c.name}.remove-feature {f.name}')
            elif k < .65 and len(c.eStructuralFeatures):
                f = rng.choice(list(c.eStructuralFeatures)); counter[0] += 1; f.name = f'g{counter[0]}'; log.append(f'{c.name}.rename-feature')
            elif k < .85 and len(c.eSuperTypes):
                s_ = rng.choice(list(c.eSuperTypes)); c.eSuperTypes.remove(s_); log.append(f'{c.name}.remove-supertype {s_.name}')
            else:
                i = classes.index(c)
                cands = [x for x in classes[:i] if x not in c.eSuperTypes]
                if not cands:
                    continue
                s_ = rng.choice(cands); c.eSuperTypes.append(s_); log.append(f'{c.name}.add-supertype {s_.name}')
        except Exception as e:
            log.append(f'edit raised {type(e).__name__}')
            break
        ctx.evaluations += 1
        ctx.count('meta-edit/' + log[-1].split('.')[-1].split()[0])
        bad = compare(f'after {log[-1]}')
    if bad:
        ctx.violate({'clause': bad[0], 'level': 'metamodel-edit'}, f'{bad[0]}: {bad[1]}', {'edits': log, 'case': h, 'kind': 'meta-edit'})
    ctx.traces += 1


def run_history(ctx, h, nops, model_in, expect):
    rng = common.sub_rng(ctx.seed, 'C19', h)
    mm = tree_mm(rng) if h % 3 else store.gen_mm(rng)
    w = store.World(mm, observe=False)
    g = store.Gen(rng, mm, w, focus=[f for f in mm.feats if f.ref and f.cont], max_objs=10)
    model_in.append('reset'); expect.append(None)
    for l in w.mm_lines():
        model_in.append(l); expect.append(None)
    for (clause, detail) in meta_views(w):
        ctx.violate({'clause': clause}, f'{clause}: {detail}', {'metamodel': w.mm_lines(), 'ops': []})
    lines = []
    for step in range(nops):
        line = g.next_op()
        rec = w.apply(line)
        lines.append(line)
        model_in.append(line); expect.append((h, lines[:], rec + ' | ' + w.dump()))
        ctx.evaluations += 1
        ctx.count('op/' + line.split()[0])
        views = independent_views(w)
        for i, o in enumerate(w.objs):
            kids, below, root = views[i]
            for q, want in ((f'q contents {i}', ','.join(map(str, kids))),
                            (f'q allcontents {i}', ','.join(map(str, below))),
                            (f'q root {i}', f'o:{root}')):
                got = w.query(q)
                model_in.append(q); expect.append((h, lines[:], got))
                ctx.evaluations += 1
                if got != want:
                    ctx.violate({'clause': q.split()[1]}, f'`{q}` is {got}, primary state says {want} (after `{line}`)',
                                {'metamodel': w.mm_lines(), 'ops': lines[:], 'query': q})
            if below:
                ctx.nontriv((h, step, i))
            # eGet by name, by feature object and attribute syntax are the same value
            for f in mm.feats_of(w.classes.index(o.eClass)):
                a, b, c = o.eGet(f.name), o.eGet(w.feats[f.fid]), getattr(o, f.name)
                if not (a is b and b is c):
                    ctx.violate({'clause': 'eGet'}, f'o{i}.f{f.fid}: eGet(name), eGet(feature), attribute differ',
                                {'metamodel': w.mm_lines(), 'ops': lines[:]})
        # what an object names as its container lists it among its contents — also after a reflective write with a
        # feature the object's class does not have (which may be refused, or land nowhere: it must not half-happen)
        if step % 4 == 3:
            foreign = [(i, f) for i, o in enumerate(w.objs) for f in mm.feats
                       if f not in mm.feats_of(w.classes.index(o.eClass))]
            if foreign:
                i, f = rng.choice(foreign)
                if f.ref:
                    fits = [j for j, y in enumerate(w.objs) if j != i and mm.conforms(w.classes.index(y.eClass), f.typ[1])
                            and y.eContainer() is None]
                    v = (f'o:{rng.choice(fits)}', True) if fits else None
                else:
                    v = (g.attr_val(f), True)
                if v is not None and v[0] != 'n' and not (f.ref and f.many):
                    before = w.dump()
                    try:
                        w.objs[i].eSet(w.feats[f.fid], w.val(v[0]))
                        ctx.count('foreign-eSet/returned')
                    except Exception:
                        ctx.count('foreign-eSet/raised')
                    w.objs[i].__dict__.pop(f.name, None)       # (a plain Python attribute is all the clean tree leaves)
                    ctx.evaluations += 1
                    if w.dump() != before:
                        ctx.violate({'clause': 'foreign-eSet-changed-model'},
                                    f'o{i}.eSet(<feature f{f.fid} of another class>, {v[0]}) changed the model',
                                    {'metamodel': w.mm_lines(), 'ops': lines[:], 'probe': f'eSet o{i} f{f.fid} {v[0]}'})
        for i, o in enumerate(w.objs):
            p = o.eContainer()
            if p is not None and not any(c is o for c in p.eContents):
                ctx.violate({'clause': 'container-without-contents'},
                            f'o{i}.eContainer() is o{w.oid(p)}, whose eContents does not list it (after `{line}`)',
                            {'metamodel': w.mm_lines(), 'ops': lines[:]})
        if ctx.violations:
            break
    ctx.traces += 1
    if h < 2:
        ctx.sample({'metamodel': w.mm_lines(), 'ops': lines[:10], 'views': {k: v for k, v in independent_views(w).items()}})


def ecore_level(ctx):
    """metamodel elements are objects too: a reflective write with the feature object does what the attribute syntax does
    (eOpposite of EReference and instanceClassName of EDataType are Python properties over the reflective features)"""
    from pyecore import ecore as E
    fo = E.EReference.eClass.findEStructuralFeature('eOpposite')
    fi = E.EDataType.eClass.findEStructuralFeature('instanceClassName')
    for how in ('feature', 'name', 'attribute'):
        A, B = E.EClass('A'), E.EClass('B')
        r1, r2 = E.EReference('r1', B), E.EReference('r2', A)
        A.eStructuralFeatures.append(r1); B.eStructuralFeatures.append(r2)
        dt = E.EDataType('D')
        if how == 'feature':
            r1.eSet(fo, r2); dt.eSet(fi, 'int')
        elif how == 'name':
            r1.eSet('eOpposite', r2); dt.eSet('instanceClassName', 'int')
        else:
            r1.eOpposite = r2; dt.instanceClassName = 'int'
        ctx.evaluations += 1
        got = (r1.eOpposite is r2, r2.eOpposite is r1, r1.eGet(fo) is r2, r1.eGet('eOpposite') is r2, dt.eType is int,
               dt.eGet(fi) == 'int', dt.instanceClassName == 'int')
        if not all(got):
            ctx.violate({'clause': 'ecore-level-eSet', 'how': how},
                        f'eOpposite / instanceClassName written by {how}: (r1.eOpposite is r2, r2.eOpposite is r1, eGet(feature), '
                        f'eGet(name), eType is int, eGet(instanceClassName), attribute) = {got}', {'how': how})


def mixed_pass(ctx):
    """static classes (both styles) that inherit from a *dynamic* EClass, and dynamic classes below them: the metamodel
    views list own plus inherited declarations, the content views see the children held through inherited containments"""
    from pyecore import ecore as E
    for k in range(12 if ctx.quick() else 150):
        rng = common.sub_rng(ctx.seed, 'C19', 'mixed', k)
        Node = E.EClass('Node')
        name = E.EAttribute('name', E.EString)
        kids = E.EReference('kids', Node, upper=-1, containment=True)
        one = E.EReference('one', Node, containment=True)
        peer = E.EReference('peer', Node)
        base_feats = [name, kids] + [f for f in (one, peer) if rng.random() < .6]
        Node.eStructuralFeatures.extend(base_feats)
        class Pretty(object):          # a plain Python helper class, not part of the metamodel
            def pretty(this):
                return 'pretty'
        mix = rng.choice([None, None, 'before', 'after'])
        if rng.random() < .5:
            if mix == 'before':
                class Sub(Pretty, Node, metaclass=E.MetaEClass):
                    quota = E.EAttribute(eType=E.EInt)
            elif mix == 'after':
                class Sub(Node, Pretty, metaclass=E.MetaEClass):
                    quota = E.EAttribute(eType=E.EInt)
            else:
                class Sub(Node, metaclass=E.MetaEClass):
                    quota = E.EAttribute(eType=E.EInt)
            style = 'metaclass'
        else:
            if mix == 'before':
                @E.EMetaclass
                class Sub(Pretty, Node):
                    quota = E.EAttribute(eType=E.EInt)
            elif mix == 'after':
                @E.EMetaclass
                class Sub(Node, Pretty):
                    quota = E.EAttribute(eType=E.EInt)
            else:
                @E.EMetaclass
                class Sub(Node):
                    quota = E.EAttribute(eType=E.EInt)
            style = 'decorator'
        if mix:
            style += '+mixin-' + mix
        Leaf = E.EClass('Leaf', superclass=(Sub.eClass,)) if rng.random() < .5 else None
        if Leaf is not None:
            # a dynamic class below a static one is still dynamic: what it is given after its creation, it has
            Leaf.eStructuralFeatures.append(E.EAttribute('depth', E.EInt))
            try:
                lv = Leaf()
                ok_own = lv.depth == 0 and not lv.eIsSet('depth')       # the default, through the descriptor
                lv.depth = 4
                ok_own = ok_own and lv.eGet('depth') == 4 and lv.eIsSet('depth') and Leaf.findEStructuralFeature('depth') is not None
            except Exception as e:
                ok_own = False
            if not ok_own:
                ctx.violate({'clause': 'views-of-mixed-hierarchy', 'style': style},
                            'a dynamic class created below a static one (superclass=…) does not expose a feature added to it afterwards',
                            {'mixed': k, 'style': style, 'own_feature': True})
                return
        for cls in [Sub.eClass] + ([Leaf] if Leaf is not None else []):
            own = list(cls.eStructuralFeatures)
            want = set(base_feats) | set(Sub.eClass.eStructuralFeatures) | set(own)
            ctx.evaluations += 1
            ctx.count(f'mixed/{style}')
            ctx.nontriv(('mixed', k, cls.name))
            probs = []
            if Node not in cls.eAllSuperTypes():
                probs.append('eAllSuperTypes() lacks the dynamic base')
            if set(cls.eAllStructuralFeatures()) != want:
                probs.append(f'eAllStructuralFeatures() is {sorted(f.name for f in cls.eAllStructuralFeatures())}, declarations say {sorted(f.name for f in want)}')
            if set(cls.eAllAttributes()) != {f for f in want if isinstance(f, E.EAttribute)}:
                probs.append('eAllAttributes() differs from the declared attributes')
            if set(cls.eAllReferences()) != {f for f in want if isinstance(f, E.EReference)}:
                probs.append('eAllReferences() differs from the declared references')
            if cls.findEStructuralFeature('kids') is not kids or cls.findEStructuralFeature('quota') is None:
                probs.append('findEStructuralFeature misses an inherited or own feature')
            inst = cls()
            a, b, c = Node(name='a'), Node(name='b'), Node(name='c')
            inst.kids.extend([a, b])
            a.kids.append(c)
            held = [a, b]
            if one in base_feats:
                d = Node(name='d')
                inst.one = d
                held.append(d)
            if sorted(map(id, inst.eContents)) != sorted(map(id, held)):
                probs.append(f'eContents lists {len(inst.eContents)} of {len(held)} children')
            if sorted(map(id, inst.eAllContents())) != sorted(map(id, held + [c])):
                probs.append('eAllContents differs from the contained objects')
            if c.eRoot() is not inst or a.eContainer() is not inst:
                probs.append('eRoot / eContainer of a child do not lead to the instance')
            if inst.eGet('name') is not inst.name or inst.eGet(kids) is not inst.kids:
                probs.append('eGet by name / by feature and attribute syntax disagree')
            if probs:
                ctx.violate({'clause': 'views-of-mixed-hierarchy', 'style': style},
                            f'{cls.name} ({"static " + style if cls is Sub.eClass else "dynamic, below a static " + style + " class"}, on a dynamic base): ' + '; '.join(probs[:3]),
                            {'mixed': k, 'style': style})
                return


def generic_super_pass(ctx):
    """a class that inherits through a *generic* supertype (an EGenericType whose classifier is another class, attached the
    way the loaders attach it: the generic type first, its classifier afterwards), directly and through a subclass: every
    feature `eAllStructuralFeatures()` lists is found by name, and the by-name and by-feature views of an instance agree"""
    from pyecore import ecore as E
    for k in range(8 if ctx.quick() else 60):
        rng = common.sub_rng(ctx.seed, 'C19', 'generic-super', k)
        Base, Mid, D, Sub = E.EClass('Base'), E.EClass('Mid'), E.EClass('D'), E.EClass('Sub')
        Base.eStructuralFeatures.extend([E.EAttribute('label', E.EString), E.EReference('others', Base, upper=-1)])
        Mid.eStructuralFeatures.append(E.EAttribute('size', E.EInt))
        if k % 2:
            Mid.eSuperTypes.append(Base)
        for cls, target in ((D, Mid if k % 2 else Base),):
            gt = E.EGenericType()
            cls.eGenericSuperTypes.append(gt)
            gt.eClassifier = target
        Sub.eSuperTypes.append(D)
        D.eStructuralFeatures.append(E.EAttribute('own', E.EString))
        ctx.evaluations += 1
        ctx.nontriv(('generic-super', k))
        for cls in (D, Sub):
            o = cls()
            for f in cls.eAllStructuralFeatures():
                found = cls.findEStructuralFeature(f.name)
                problem = None
                if found is not f:
                    problem = f'findEStructuralFeature({f.name!r}) gives {found}, eAllStructuralFeatures() lists the feature'
                elif not f.many:
                    try:
                        o.eSet(f, 'v' if f.eType is E.EString else 3)
                        if o.eIsSet(f.name) != o.eIsSet(f) or o.eGet(f.name) != o.eGet(f):
                            problem = f'{f.name}: eIsSet / eGet by name and by feature disagree'
                    except Exception as e:
                        problem = f'{f.name}: {type(e).__name__}: {e}'
                if problem:
                    ctx.violate({'clause': 'generic-supertype'}, f'{cls.name} (inheriting through a generic supertype): {problem}', {'generic_super': k})
                    return


def run(ctx):
    common.use_repo()
    mixed_pass(ctx)
    generic_super_pass(ctx)
    n = 200 if ctx.quick() else 3000
    nops = 25 if ctx.quick() else 40
    ctx.rule = (f'{n} histories (<= {nops} ops) over containment-centred and random metamodels; after every call, for every object: '
                'eContents / eAllContents() / eRoot() against a recomputation from containment slots and container pointers '
                '(multisets: the code iterates a set of references), eGet by name / by feature / attribute syntax identical; '
                'per metamodel: eAllSuperTypes / eAllStructuralFeatures / eAllReferences / eAllAttributes / findEStructuralFeature '
                'against the declared hierarchy. non-trivial & distinct = (history, step, object) with a non-empty subtree')
    model_in, expect = [], []
    ecore_level(ctx)
    for h in range(n):
        run_history(ctx, h, nops, model_in, expect)
    for h in range(n):
        meta_edit_case(ctx, h, 12 if ctx.quick() else 25)
    out = common.run_driver('store', model_in)
    bad = set()
    for line, exp, got in zip(model_in, expect, out):
        if exp is None:
            continue
        h, lines, want = exp
        if h not in bad and got != want:
            bad.add(h)
            ctx.diverge(f'history {h} `{line}`: model `{got[:200]}` vs implementation `{want[:200]}`', {'ops': lines})


def search(ctx):
    model_in, expect = [], []
    for h in range(7000, 8000):
        run_history(ctx, h, 45, model_in, expect)
        if ctx.violations:
            return


def replay(ctx, data):
    common.use_repo()
    r = data['replay']
    if r.get('kind') == 'meta-edit':
        c2 = common.Ctx('C19', data['tier'], data['seed'])
        meta_edit_case(c2, r['case'], 30)
        for v in c2.violations:
            print('  ', v['what'])
        return 1 if c2.violations else 0
    mm = storecheck.mm_from_lines(r['metamodel'])
    w = store.World(mm, observe=False)
    bad = len(meta_views(w))
    for l in r['ops']:
        print(f'  {l:<26} -> {w.apply(l)}')
    views = independent_views(w)
    for i in range(len(w.objs)):
        kids, below, root = views[i]
        for q, want in ((f'q contents {i}', ','.join(map(str, kids))), (f'q allcontents {i}', ','.join(map(str, below))),
                        (f'q root {i}', f'o:{root}')):
            got = w.query(q)
            if got != want:
                print(f'  {q}: {got} vs {want}')
                bad += 1
    return 1 if bad else 0
