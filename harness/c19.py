"""C19 — the reflective views agree with the model they describe (DESIGN.md section 4)."""
from . import common, store, storecheck, oracles
from .c11 import tree_mm


def independent_views(w):
    """eContents / eAllContents / eRoot recomputed from the primary state (containment slots, container pointers)"""
    snap = oracles.snapshot(w)
    out = {}
    for i, o in enumerate(w.objs):
        kids = []
        for fid, vals in snap[i][0].items():
            f = w.mm.feats[fid]
            if f.ref and f.cont:
                kids += [w.oid(v) for v in vals]
        below = oracles.subtree(w, snap, i)
        root, n = o, 0
        while root._container is not None and n < 100:
            root, n = root._container, n + 1
        out[i] = (sorted(kids), sorted(below), w.oid(root))
    return out


def meta_views(w):
    """metamodel-level views against an independent recomputation from eSuperTypes / eStructuralFeatures"""
    problems = []
    for cid, c in enumerate(w.classes):
        sup = w.mm.all_supers(cid)
        got = sorted(w.classes.index(x) for x in c.eAllSuperTypes())
        if got != sorted(sup):
            problems.append(('eAllSuperTypes', f'C{cid}: {got} vs {sorted(sup)}'))
        want_feats = sorted(f.fid for f in w.mm.feats_of(cid))
        got_feats = sorted(w.fid_of[id(f)] for f in c.eAllStructuralFeatures())
        if got_feats != want_feats:
            problems.append(('eAllStructuralFeatures', f'C{cid}: {got_feats} vs {want_feats}'))
        got_refs = sorted(w.fid_of[id(f)] for f in c.eAllReferences())
        if got_refs != [k for k in want_feats if w.mm.feats[k].ref]:
            problems.append(('eAllReferences', f'C{cid}: {got_refs}'))
        got_attrs = sorted(w.fid_of[id(f)] for f in c.eAllAttributes())
        if got_attrs != [k for k in want_feats if not w.mm.feats[k].ref]:
            problems.append(('eAllAttributes', f'C{cid}: {got_attrs}'))
        for k in want_feats:
            f = c.findEStructuralFeature(f'f{k}')
            if f is not w.feats[k]:
                problems.append(('findEStructuralFeature', f'C{cid}.f{k}'))
    return problems


def run_history(ctx, h, nops, model_in, expect):
    rng = common.sub_rng(ctx.seed, 'C19', h)
    mm = tree_mm(rng) if h % 3 else store.gen_mm(rng)
    w = store.World(mm, observe=False)
    g = store.Gen(rng, mm, w, focus=[f for f in mm.feats if f.ref and f.cont], max_objs=10)
    model_in.append('reset'); expect.append(None)
    for l in w.mm_lines():
        model_in.append(l); expect.append(None)
    for (clause, detail) in meta_views(w):
        ctx.violate({'clause': clause}, f'{clause}: {detail}', {'metamodel': w.mm_lines(), 'ops': []})
    lines = []
    for step in range(nops):
        line = g.next_op()
        rec = w.apply(line)
        lines.append(line)
        model_in.append(line); expect.append((h, lines[:], rec + ' | ' + w.dump()))
        ctx.evaluations += 1
        ctx.count('op/' + line.split()[0])
        views = independent_views(w)
        for i, o in enumerate(w.objs):
            kids, below, root = views[i]
            for q, want in ((f'q contents {i}', ','.join(map(str, kids))),
                            (f'q allcontents {i}', ','.join(map(str, below))),
                            (f'q root {i}', f'o:{root}')):
                got = w.query(q)
                model_in.append(q); expect.append((h, lines[:], got))
                ctx.evaluations += 1
                if got != want:
                    ctx.violate({'clause': q.split()[1]}, f'`{q}` is {got}, primary state says {want} (after `{line}`)',
                                {'metamodel': w.mm_lines(), 'ops': lines[:], 'query': q})
            if below:
                ctx.nontriv((h, step, i))
            # eGet by name, by feature object and attribute syntax are the same value
            for f in mm.feats_of(w.classes.index(o.eClass)):
                a, b, c = o.eGet(f.name), o.eGet(w.feats[f.fid]), getattr(o, f.name)
                if not (a is b and b is c):
                    ctx.violate({'clause': 'eGet'}, f'o{i}.f{f.fid}: eGet(name), eGet(feature), attribute differ',
                                {'metamodel': w.mm_lines(), 'ops': lines[:]})
        if ctx.violations:
            break
    ctx.traces += 1
    if h < 2:
        ctx.sample({'metamodel': w.mm_lines(), 'ops': lines[:10], 'views': {k: v for k, v in independent_views(w).items()}})


def run(ctx):
    common.use_repo()
    n = 200 if ctx.quick() else 3000
    nops = 25 if ctx.quick() else 40
    ctx.rule = (f'{n} histories (<= {nops} ops) over containment-centred and random metamodels; after every call, for every object: '
                'eContents / eAllContents() / eRoot() against a recomputation from containment slots and container pointers '
                '(multisets: the code iterates a set of references), eGet by name / by feature / attribute syntax identical; '
                'per metamodel: eAllSuperTypes / eAllStructuralFeatures / eAllReferences / eAllAttributes / findEStructuralFeature '
                'against the declared hierarchy. non-trivial & distinct = (history, step, object) with a non-empty subtree')
    model_in, expect = [], []
    for h in range(n):
        run_history(ctx, h, nops, model_in, expect)
    out = common.run_driver('store', model_in)
    bad = set()
    for line, exp, got in zip(model_in, expect, out):
        if exp is None:
            continue
        h, lines, want = exp
        if h not in bad and got != want:
            bad.add(h)
            ctx.diverge(f'history {h} `{line}`: model `{got[:200]}` vs implementation `{want[:200]}`', {'ops': lines})


def search(ctx):
    model_in, expect = [], []
    for h in range(7000, 8000):
        run_history(ctx, h, 45, model_in, expect)
        if ctx.violations:
            return


def replay(ctx, data):
    common.use_repo()
    r = data['replay']
    mm = storecheck.mm_from_lines(r['metamodel'])
    w = store.World(mm, observe=False)
    bad = len(meta_views(w))
    for l in r['ops']:
        print(f'  {l:<26} -> {w.apply(l)}')
    views = independent_views(w)
    for i in range(len(w.objs)):
        kids, below, root = views[i]
        for q, want in ((f'q contents {i}', ','.join(map(str, kids))), (f'q allcontents {i}', ','.join(map(str, below))),
                        (f'q root {i}', f'o:{root}')):
            got = w.query(q)
            if got != want:
                print(f'  {q}: {got} vs {want}')
                bad += 1
    return 1 if bad else 0
