"""Extractor: regenerates declarative Lean tables from /repo's current source on every run (DESIGN.md 2.4).

T2  Generated/DataTypeTable.lean — every EDataType of pyecore.ecore and pyecore.type: Python type and the *kind* of its
    to_string / from_string, classified by identity of the callable or by the shape of the lambda's code object
    (names and constants); anything unrecognised becomes `.unknown`, which fails `C17_table`.
"""
import os
from . import common

GEN = os.path.join(common.LEAN, 'PyecoreModel', 'Generated')
ISO = '%Y-%m-%dT%H:%M:%S.%f%z'


def write_if_changed(path, text):
    os.makedirs(os.path.dirname(path), exist_ok=True)
    if os.path.exists(path) and open(path).read() == text:
        return False
    with open(path, 'w') as fh:
        fh.write(text)
    return True


def classify_to(dt, E):
    f = dt.to_string
    if getattr(f, '__func__', None) is E.EDataType.to_string:
        return 'str'
    code = getattr(f, '__code__', None)
    if code is None:
        return 'unknown'
    if code.co_argcount == 1 and set(code.co_names) == {'str', 'lower'}:
        return 'lowerStr'
    # f'{d.year:04d}' + d.strftime('-%m-%dT%H:%M:%S.%f%z'): the four-digit year is written by Python, the rest by strftime
    # (the form with '%Y' is not four wide below year 1000 on glibc: it is no longer a round-tripping shape)
    if code.co_argcount == 1 and {'strftime', 'year'} <= set(code.co_names) and ISO[2:] in code.co_consts \
            and '04d' in code.co_consts:
        return 'strftimeIso'
    return 'unknown'


def parse_date_shape_ok():
    from pyecore import innerutils
    code = innerutils.parse_date.__code__
    consts = [c for c in code.co_consts if isinstance(c, tuple)]
    return ('fromisoformat' in code.co_names and 'strptime' in code.co_names
            and any(c and c[0] == ISO for c in consts))


def classify_from(dt, E):
    import decimal
    from pyecore import innerutils
    f = dt.from_string
    if getattr(f, '__func__', None) is E.EDataType.from_string:
        return 'ident'
    if f is int:
        return 'int'
    if f is float:
        return 'float'
    if f is decimal.Decimal:
        return 'decimal'
    if f is innerutils.parse_date:
        return 'parseDate' if parse_date_shape_ok() else 'unknown'
    code = getattr(f, '__code__', None)
    if code is None:
        return 'unknown'
    lists = [c for c in code.co_consts if isinstance(c, (tuple, list, frozenset))]
    flat = set(code.co_consts) | {x for l in lists for x in l}
    if code.co_argcount == 1 and {'True', 'true'} <= flat and not (flat & {'False', 'false', '1', 'yes'}):
        return 'inTrueList'
    return 'unknown'


def py_kind(t):
    import decimal, datetime
    return {str: 'str', bool: 'bool', int: 'int', float: 'float', decimal.Decimal: 'decimal',
            datetime.datetime: 'datetime'}.get(t, 'other')


def _iso(d):
    """the text `Codec.fmtDate` gives (four-digit year; offset as +hhmm[ss[.ffffff]])"""
    t = f'{d.year:04d}-{d.month:02d}-{d.day:02d}T{d.hour:02d}:{d.minute:02d}:{d.second:02d}.{d.microsecond:06d}'
    off = d.utcoffset()
    if off is None:
        return t
    import datetime
    neg = off < datetime.timedelta(0)
    off = -off if neg else off
    secs, us = off.days * 86400 + off.seconds, off.microseconds
    t += ('-' if neg else '+') + f'{secs // 3600:02d}{secs % 3600 // 60:02d}'
    if secs % 60 or us:
        t += f'{secs % 60:02d}' + (f'.{us:06d}' if us else '')
    return t


def _date_probes():
    import datetime as D
    tz = lambda **k: D.timezone(D.timedelta(**k))
    return [D.datetime(7, 1, 2, 3, 4, 5, 6), D.datetime(999, 12, 31, 23, 59, 59, 999999, tz(hours=5, minutes=30)),
            D.datetime(2024, 2, 29, 0, 0, 0, 0, D.timezone.utc), D.datetime(1000, 1, 1, 0, 0, 0, 0, tz(seconds=-3661)),
            D.datetime(9999, 12, 31, 12, 0, 0, 1, tz(seconds=1, microseconds=1))]


def behaves_like(dt, side, kind):
    """When the *shape* of a converter is not one the extractor knows (it was rewritten: a named function instead of a
    lambda, another formatting idiom), ask the converter itself: it is classified by what it does on a fixed probe
    set.  (The differential pass over thousands of values runs on every converter whatever its classification.)"""
    import decimal
    f = dt.to_string if side == 'to' else dt.from_string
    try:
        if side == 'to':
            if kind == 'strftimeIso':
                return all(f(p) == _iso(p) for p in _date_probes())
            if kind == 'str':
                probes = {'str': ['', 'a b', 'é'], 'int': [0, -12, 10 ** 30], 'float': [0.5, -1e300],
                          'decimal': [decimal.Decimal('1.50')]}.get(py_kind(dt.eType))
                return probes is not None and all(f(p) == str(p) for p in probes)
            if kind == 'lowerStr':
                return f(True) == 'true' and f(False) == 'false'
        else:
            if kind == 'parseDate':
                return all(f(_iso(p)) == p and f(_iso(p)).utcoffset() == p.utcoffset() for p in _date_probes())
            if kind == 'int':
                return all(f(t) == v and type(f(t)) is int for t, v in (('0', 0), ('-12', -12), ('1' + '0' * 30, 10 ** 30)))
            if kind == 'float':
                return all(f(t) == v and type(f(t)) is float for t, v in (('0.5', 0.5), ('-1e+300', -1e300), ('inf', float('inf'))))
            if kind == 'decimal':
                return all(f(t) == decimal.Decimal(t) and type(f(t)) is decimal.Decimal for t in ('1.50', '-0', '1E+3'))
            if kind == 'inTrueList':
                return [f(t) for t in ('true', 'True', 'false', 'False', '1', 'TRUE', 'yes', '')] == [True, True] + [False] * 6
            if kind == 'ident':
                return all(f(t) == t for t in ('', 'a b', 'é'))
    except Exception:
        return False
    return False


EXPECTED_KINDS = {'str': ('str', 'ident'), 'int': ('str', 'int'), 'float': ('str', 'float'), 'decimal': ('str', 'decimal'),
                  'bool': ('lowerStr', 'inTrueList'), 'datetime': ('strftimeIso', 'parseDate')}


def datatype_rows():
    common.use_repo()
    from pyecore import ecore as E
    from pyecore.type import type as T
    rows = []
    for modname, mod in (('ecore', E), ('type', T)):
        for n in sorted(dir(mod)):
            v = getattr(mod, n)
            if isinstance(v, E.EDataType) and not isinstance(v, E.EEnum):
                tk, fk = classify_to(v, E), classify_from(v, E)
                want = EXPECTED_KINDS.get(py_kind(v.eType))
                if want:
                    if tk == 'unknown' and behaves_like(v, 'to', want[0]):
                        tk = want[0]
                    if fk == 'unknown' and behaves_like(v, 'from', want[1]):
                        fk = want[1]
                rows.append((f'{modname}.{v.name}', py_kind(v.eType), tk, fk, v))
    return rows


def gen_datatype_table():
    rows = datatype_rows()
    body = ',\n  '.join(f'⟨"{n}", .{p}, .{t}, .{f}⟩' for (n, p, t, f, _) in rows)
    text = ('import PyecoreModel.Model.Codec\n'
            '/-! GENERATED by harness/extract.py from /repo on every run — do not edit. -/\n'
            'namespace Codec\n\n'
            f'def dataTypeTable : List Row := [\n  {body}\n]\n\nend Codec\n')
    changed = write_if_changed(os.path.join(GEN, 'DataTypeTable.lean'), text)
    return rows, changed


# ---------------------------------------------------------------------------------------------------------
# T4  Generated/Skeletons.lean — the ordered effect steps of XMIResource.save, JsonResource.save, ResourceSet.get_resource

def _calls_in_eval_order(node):
    """Call nodes of a statement list in evaluation order (arguments before the call itself, statements in order;
    loop and try bodies once)"""
    import ast
    out = []

    def visit(n):
        if isinstance(n, ast.Call):
            for a in list(n.args) + [k.value for k in n.keywords]:
                visit(a)
            visit(n.func)
            out.append(n)
        else:
            for c in ast.iter_child_nodes(n):
                visit(c)
    for st in node:
        visit(st)
    return out


def _callee(c):
    import ast
    f = c.func
    if isinstance(f, ast.Attribute):
        return f.attr
    if isinstance(f, ast.Name):
        return f.id
    return ''


SAVE_KIND = {'open_out_stream': 'openOut', '_go_across': 'build', 'to_dict': 'build', 'dumps': 'build', 'ElementTree': 'build',
             'write': 'write', 'flush': 'flush', 'close_stream': 'close'}


def _helper_ast(c, cls, stop):
    """the definition a call goes to when it is a helper of pyecore's own that the skeleton should look into: a method of
    the same class called on `self` / `cls` / the class, or a function of the same module called by name.  Calls the
    skeleton names itself (`stop`) are steps, not helpers."""
    import ast, inspect, sys, textwrap, types
    f = c.func
    name = _callee(c)
    if not name or name in stop:
        return None
    target = None
    if isinstance(f, ast.Attribute) and isinstance(f.value, ast.Name) and f.value.id in ('self', 'cls', cls.__name__):
        if name.startswith('__') and not name.endswith('__'):
            name = '_' + cls.__name__.lstrip('_') + name          # private name mangling
        target = inspect.getattr_static(cls, name, None)
    elif isinstance(f, ast.Name):
        target = getattr(sys.modules.get(cls.__module__), name, None)
    if isinstance(target, (staticmethod, classmethod)):
        target = target.__func__
    if not isinstance(target, types.FunctionType) or not (target.__module__ or '').startswith('pyecore'):
        return None
    try:
        return ast.parse(textwrap.dedent(inspect.getsource(target))).body[0]
    except (OSError, TypeError, SyntaxError, IndexError):
        return None


def _names_inlined(stmts, cls, stop, depth=0, seen=()):
    """callee names of a statement list in evaluation order, with pyecore's own helpers looked into (a save or a load
    split into private methods is the same sequence of steps)"""
    out = []
    for c in _calls_in_eval_order(stmts):
        name = _callee(c)
        h = _helper_ast(c, cls, stop) if depth < 4 and name not in seen else None
        if h is not None:
            out += _names_inlined(h.body, cls, stop, depth + 1, seen + (name,))
        else:
            out.append(name)
    return out


def save_skeleton(cls):
    import ast, inspect, textwrap
    src = textwrap.dedent(inspect.getsource(cls.save))
    fn = ast.parse(src).body[0]
    steps = []
    for name in _names_inlined(fn.body, cls, set(SAVE_KIND)):
        k = SAVE_KIND.get(name)
        if k and (not steps or steps[-1] != k or k in ('openOut', 'write')):
            steps.append(k)
    return steps


GETRES_STOP = {'create_resource', 'load', 'remove_resource'}


def get_resource_skeleton():
    """lookup -> create -> try load -> except: remove; raise   (helpers of pyecore's own are looked into)"""
    import ast, inspect, textwrap
    from pyecore.resources.resource import ResourceSet
    fn = ast.parse(textwrap.dedent(inspect.getsource(ResourceSet.get_resource))).body[0]
    steps = []

    def calls(stmts, depth, seen):
        """(name | ('helper', ast)) in evaluation order"""
        for c in _calls_in_eval_order(stmts):
            name = _callee(c)
            h = _helper_ast(c, ResourceSet, GETRES_STOP) if depth < 4 and name not in seen else None
            yield (name, h)

    def walk(stmts, depth, seen):
        for st in stmts:
            if isinstance(st, ast.If) and any(isinstance(x, ast.Return) for x in st.body) and 'resources' in ast.dump(st.test):
                steps.append('lookup')
            elif isinstance(st, ast.Try):
                for name, h in calls(st.body, depth, seen):
                    if name == 'load':
                        steps.append('load')
                    elif h is not None:
                        walk(h.body, depth + 1, seen + (name,))
                for hd in st.handlers:
                    names = _names_inlined(hd.body, ResourceSet, GETRES_STOP)
                    if 'remove_resource' in names:
                        steps.append('removeOnError')
                    if any(isinstance(x, ast.Raise) for x in ast.walk(ast.Module(body=hd.body, type_ignores=[]))):
                        steps.append('reraise')
            else:
                for name, h in calls([st], depth, seen):
                    if name == 'create_resource':
                        steps.append('create')
                    elif name == 'load':
                        steps.append('load')
                    elif h is not None:
                        walk(h.body, depth + 1, seen + (name,))
    walk(fn.body, 0, ())
    return steps


def gen_skeletons():
    common.use_repo()
    from pyecore.resources.xmi import XMIResource
    from pyecore.resources.json import JsonResource
    xs, js, gs = save_skeleton(XMIResource), save_skeleton(JsonResource), get_resource_skeleton()
    fmt = lambda l: '[' + ', '.join('.' + x for x in l) + ']'
    text = ('import PyecoreModel.Model.SaveSkeleton\n'
            '/-! GENERATED by harness/extract.py from /repo on every run — do not edit. -/\n'
            'namespace Skel\n\n'
            f'def xmiSave : List SaveStep := {fmt(xs)}\n'
            f'def jsonSave : List SaveStep := {fmt(js)}\n'
            f'def getResource : List LoadStep := {fmt(gs)}\n\nend Skel\n')
    changed = write_if_changed(os.path.join(GEN, 'Skeletons.lean'), text)
    return xs, js, gs, changed


# ---------------------------------------------------------------------------------------------------------
# T1  Generated/EcoreTable.lean — every structural feature of every Ecore metaclass, with what decides whether a value
#     given to it reaches an .ecore file: derived / transient flags, and whether plain attribute assignment records the
#     feature in `_isset` (a Python property shadowing the descriptor may forget to)

SIGNATURE = {
    'ENamedElement': ['name'], 'EClass': ['abstract', 'interface', 'eSuperTypes', 'eStructuralFeatures', 'eOperations'],
    'ETypedElement': ['lowerBound', 'upperBound', 'ordered', 'unique', 'eType'],
    'EStructuralFeature': ['changeable', 'volatile', 'transient', 'derived', 'defaultValueLiteral'],
    'EAttribute': ['iD'], 'EReference': ['containment', 'eOpposite'],
    'EEnum': ['eLiterals'], 'EEnumLiteral': ['value'], 'EDataType': ['instanceClassName'],
    'EOperation': ['eParameters'], 'EModelElement': ['eAnnotations'], 'EAnnotation': ['source', 'details'],
    'EPackage': ['nsURI', 'nsPrefix', 'eClassifiers', 'eSubpackages'], 'EParameter': [],
}


def ecore_rows():
    common.use_repo()
    from pyecore import ecore as E
    concrete = {'EClass': lambda: E.EClass('X'), 'EAttribute': lambda: E.EAttribute('x', E.EString),
                'EReference': lambda: E.EReference('x', E.EClass('T')), 'EEnum': lambda: E.EEnum('X'),
                'EEnumLiteral': lambda: E.EEnumLiteral('L'), 'EDataType': lambda: E.EDataType('D'),
                'EOperation': lambda: E.EOperation('op'), 'EParameter': lambda: E.EParameter('p'),
                'EAnnotation': lambda: E.EAnnotation('s'), 'EPackage': lambda: E.EPackage('p')}

    def probe_value(f, inst):
        t = f.eType
        if f.many:
            return None
        if t is E.EString:
            return 'probe'
        if t in (E.EBoolean,):
            return not bool(inst.eGet(f))
        if t in (E.EInt, E.EInteger):
            return 5
        if f.name == 'eOpposite':
            return E.EReference('other', E.EClass('T2'))
        if f.name == 'eType':
            return E.EInt if isinstance(inst, E.EAttribute) else None
        return None
    rows = []
    for cname, make in sorted(concrete.items()):
        inst = make()
        for f in inst.eClass.eAllStructuralFeatures():
            owner = f.eContainingClass.name
            in_sig = f.name in SIGNATURE.get(owner, [])
            marks = True
            note = 'not probed'
            if not f.many and not f.derived:
                v = probe_value(f, make())
                if v is not None:
                    o = make()
                    try:
                        setattr(o, f.name, v)
                        # save() walks `_isset` and writes each entry under its name
                        marks = any(getattr(x, 'name', None) == f.name for x in o._isset)
                        note = 'probed'
                    except Exception:
                        note = 'probe raised'
            else:
                note = 'collection' if f.many else 'derived'
            rows.append((cname, owner, f.name, bool(f.derived), bool(f.transient), bool(f.many), in_sig, marks, note))
    return rows


def gen_ecore_table():
    rows = ecore_rows()
    b = lambda x: 'true' if x else 'false'
    body = ',\n  '.join(f'⟨"{c}", "{o}", "{n}", {b(d)}, {b(t)}, {b(m)}, {b(s)}, {b(k)}⟩' for (c, o, n, d, t, m, s, k, _) in rows)
    text = ('import PyecoreModel.Model.EcoreTable\n'
            '/-! GENERATED by harness/extract.py from /repo on every run — do not edit. -/\n'
            'namespace EcoreT\n\n'
            f'def ecoreTable : List Row := [\n  {body}\n]\n\nend EcoreT\n')
    changed = write_if_changed(os.path.join(GEN, 'EcoreTable.lean'), text)
    return rows, changed


def gen_keywords():
    """T5  Generated/Keywords.lean — keyword.kwlist of the interpreter pyecore runs under, plus a check that
    `EOperation.normalized_name` still consults `keyword.iskeyword` (anything else leaves the table untied)."""
    import keyword
    from pyecore import ecore as E
    code = E.EOperation.normalized_name.__code__
    tied = 'iskeyword' in code.co_names and '_' in code.co_consts
    text = ('/-! GENERATED by harness/extract.py from the interpreter pyecore runs under (keyword.kwlist) on every run — do not edit. -/\n'
            'namespace Ops\n\ndef pyKeywords : List String := [' + ', '.join('"%s"' % k for k in keyword.kwlist) + ']\n\nend Ops\n')
    changed = write_if_changed(os.path.join(GEN, 'Keywords.lean'), text)
    return list(keyword.kwlist), changed, tied
