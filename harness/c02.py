"""C02 — see DESIGN.md section 4 and harness/storecheck.py."""
from . import storecheck

CHECKS = ('c02',)


def run(ctx):
    storecheck.run(ctx, CHECKS)


def search(ctx):
    storecheck.search(ctx, CHECKS)


def replay(ctx, data):
    return storecheck.replay(ctx, data, CHECKS)
