"""C02 — see DESIGN.md section 4 and harness/storecheck.py."""
from . import storecheck, common

CHECKS = ('c02',)


def equal_owner_pass(ctx):
    """owners that compare equal without being identical (a static class may define __eq__ / __hash__, by name say): a
    child given to the second of two equal boxes leaves the first one; the same for two equal roots of a resource"""
    from . import common
    from pyecore import ecore as E
    from pyecore.resources.resource import Resource
    for k in range(12 if ctx.quick() else 100):
        rng = common.sub_rng(ctx.seed, 'C02', 'equal-owner', k)
        many = rng.random() < .6

        class Box(E.EObject, metaclass=E.MetaEClass):
            name = E.EAttribute(eType=E.EString)
            items = E.EReference(upper=-1 if many else 1, containment=True)

            def __init__(self, name=None):
                super().__init__()
                self.name = name

            def __eq__(self, other):
                return isinstance(other, Box) and other.name == self.name

            def __hash__(self):
                return hash(self.name)

        falsy = k % 2 == 1

        class Item(E.EObject, metaclass=E.MetaEClass):
            label = E.EAttribute(eType=E.EString)

            def __len__(self):      # (every other case: an item that Python takes for false, as an empty container is)
                return 0 if falsy else 1
        Box.items.eType = Item
        b1, b2, x = Box('a'), Box('a'), Item()

        def put(b):
            if many:
                b.items.append(x)
            else:
                b.items = x

        def holds(b):
            return any(v is x for v in (b.items if many else ([b.items] if b.items is not None else [])))
        put(b1); put(b2)
        ctx.evaluations += 1
        ctx.count('equal-owner/' + ('many' if many else 'single'))
        ctx.nontriv(('equal-owner', k))
        if holds(b1) or not holds(b2) or x.eContainer() is not b2:
            ctx.violate({'clause': 'multi-owner', 'equal_owners': True},
                        f'multi-owner: a child given to the second of two equal (not identical) containers: first holds it {holds(b1)}, '
                        f'second holds it {holds(b2)}, eContainer() is the second {x.eContainer() is b2}', {'equal_owner': k, 'many': many})
            return
        # a root of a resource given to a container through a resolved proxy standing for it: it leaves the roots
        from pyecore.ecore import EProxy
        rr = Resource()
        y, b3 = Item(), Box('c')
        rr.append(y)
        if many:
            b3.items.append(EProxy(wrapped=y))
        else:
            b3.items = EProxy(wrapped=y)
        if any(c is y for c in rr.contents) or y.eContainer() is not b3:
            ctx.violate({'clause': 'multi-owner', 'through_proxy': True},
                        f'multi-owner: a root contained through a resolved proxy standing for it: still a root of its resource '
                        f'{any(c is y for c in rr.contents)}, eContainer() is the new container {y.eContainer() is b3}',
                        {'equal_owner': k, 'proxy_root': True})
            return
        # ... and giving the slot the object itself where it holds the proxy (or the proxy again where it holds the object)
        # changes nothing: the child is held once and knows its container
        for form in ('instance', 'proxy', 'instance'):
            v = y if form == 'instance' else EProxy(wrapped=y)
            if many:
                b3.items.append(v)
            else:
                b3.items = v
            held = [c for c in (b3.items if many else [b3.items]) if c is y or getattr(c, '_wrapped', None) is y]
            if len(held) != 1 or y.eContainer() is not b3 or y.eContainmentFeature() is None:
                ctx.violate({'clause': 'multi-owner', 'through_proxy': True, 'reset': True},
                            f'multi-owner: a contained child given again to its own slot as {form} (the slot holds it through '
                            f'a proxy or directly): held {len(held)} time(s), eContainer() is the container {y.eContainer() is b3}',
                            {'equal_owner': k, 'proxy_root': True, 'reset': form})
                return
        # ... and a move between two boxes where one side of the move is the proxy and the other the object itself: one owner
        for first, second in (('proxy', 'instance'), ('instance', 'proxy')):
            z, c1, c2 = Item(), Box('m'), Box('n')
            for box, form in ((c1, first), (c2, second)):
                v = z if form == 'instance' else EProxy(wrapped=z)
                if many:
                    box.items.append(v)
                else:
                    box.items = v
            in1 = [c for c in (c1.items if many else ([c1.items] if c1.items is not None else [])) if c is z or getattr(c, '_wrapped', None) is z]
            in2 = [c for c in (c2.items if many else ([c2.items] if c2.items is not None else [])) if c is z or getattr(c, '_wrapped', None) is z]
            if in1 or len(in2) != 1 or z.eContainer() is not c2:
                ctx.violate({'clause': 'multi-owner', 'through_proxy': True, 'move': True},
                            f'multi-owner: a child given to one box as {first}, then to another as {second}: the first still holds it '
                            f'{bool(in1)}, the second holds it {len(in2)} time(s), eContainer() is the second {z.eContainer() is c2}',
                            {'equal_owner': k, 'proxy_move': f'{first}-{second}'})
                return
        # two equal roots: removing the second must not take out the first
        r = Resource()
        r.append(b1); r.append(b2)
        r.remove(b2)
        if not (len(r.contents) == 1 and r.contents[0] is b1 and b1.eResource is r and b2.eResource is None):
            ctx.violate({'clause': 'wrong-resource', 'equal_owners': True},
                        'wrong-resource: of two equal roots the second was removed: the resource now lists '
                        f'{["first" if c is b1 else "second" for c in r.contents]}, first.eResource is r: {b1.eResource is r}, '
                        f'second.eResource is None: {b2.eResource is None}', {'equal_owner': k, 'roots': True})
            return


def resource_extend_pass(ctx):
    """Resource.extend: a batch with a value that is refused leaves the resource and the other values as they were; a
    containment collection handed over directly gives up all its elements"""
    from . import common
    from pyecore import ecore as E
    from pyecore.resources.resource import Resource
    for k in range(12 if ctx.quick() else 100):
        rng = common.sub_rng(ctx.seed, 'C02', 'resource-extend', k)
        A = E.EClass('A')
        A.eStructuralFeatures.append(E.EReference('kids', A, upper=-1, containment=True))
        p = A()
        kids = [A() for _ in range(rng.randint(2, 5))]
        p.kids.extend(kids)
        r, other = Resource(), Resource()
        roots = [A() for _ in range(rng.randint(1, 3))]
        other.extend(roots)
        bad = rng.choice(['bad', 3, None, object()])
        batch = roots[:rng.randint(0, len(roots))] + [bad] + kids[:1]
        ctx.evaluations += 1
        ctx.nontriv(('resource-extend', k))
        try:
            r.extend(batch)
            raised = None
        except Exception as e:
            raised = type(e).__name__
        if raised and (len(r.contents) or any(x.eResource is not other for x in roots) or kids[0].eContainer() is not p):
            ctx.violate({'clause': 'failed-op-changed-ownership', 'op': 'Resource.extend'},
                        f'failed-op-changed-ownership: Resource.extend with a refused value ({type(bad).__name__}) raised {raised}, '
                        f'but the resource now has {len(r.contents)} root(s)', {'resource_extend': k})
            return
        r2 = Resource()
        r2.extend(p.kids)
        if len(p.kids) or [id(x) for x in r2.contents] != [id(x) for x in kids] or any(x.eContainer() is not None for x in kids):
            ctx.violate({'clause': 'wrong-resource', 'op': 'Resource.extend'},
                        f'wrong-resource: Resource.extend(owner.kids) with {len(kids)} children: {len(r2.contents)} became roots, '
                        f'{len(p.kids)} stayed with their container', {'resource_extend': k, 'live': True})
            return


def proxy_containment_pass(ctx):
    """a containment reference (single or many) is given an *unresolved* proxy for an object of another document — a root
    of it, or a child somewhere in it: the object the proxy stands for has one owner afterwards — it is contained by the
    holder, reports the holder's resource, and has left the roots (or the container) it had"""
    import os, shutil, tempfile
    from pyecore import ecore as E
    from pyecore.resources import ResourceSet, URI
    tmp = tempfile.mkdtemp(prefix='verif_c02_')
    try:
        for k in range(24 if ctx.quick() else 300):
            rng = common.sub_rng(ctx.seed, 'C02', 'proxy-containment', k)
            pk = E.EPackage('pc', f'http://verif/c02/pc{k}', 'pc')
            A = E.EClass('A')
            pk.eClassifiers.append(A)
            many = k % 2 == 0
            A.eStructuralFeatures.extend([E.EAttribute('name', E.EString), E.EReference('kids', A, upper=-1, containment=True),
                                          E.EReference('slot', A, upper=-1 if many else 1, containment=True)])
            d = os.path.join(tmp, f'pc{k}')
            os.makedirs(d)
            w = ResourceSet()
            rb = w.create_resource(URI(os.path.join(d, 'b.xmi')))
            y = A(name='y'); y.kids.append(A(name='yk')); y.kids[0].kids.append(A(name='ykk'))
            rb.append(y)
            rb.append(A(name='y2'))
            rb.save()
            rset = ResourceSet()
            rset.metamodel_registry[pk.nsURI] = pk
            ra = rset.create_resource(URI(os.path.join(d, 'a.xmi')))
            h = A(name='h')
            ra.append(h)
            frag, tname = rng.choice([('/0', 'y'), ('/1', 'y2'), ('/0/@kids.0', 'yk'), ('/0/@kids.0/@kids.0', 'ykk')])
            p = E.EProxy(path=f'b.xmi#{frag}', resource=ra)
            ctx.evaluations += 1
            ctx.count(f'proxy-containment/{"many" if many else "single"}/{tname}')
            ctx.nontriv(('proxy-containment', k))
            rep = {'proxy_containment': k, 'many': many, 'target': tname}
            try:
                if many:
                    h.slot.append(p)
                else:
                    h.slot = p
            except Exception as e:
                ctx.count('proxy-containment/raised/' + type(e).__name__)
                continue
            try:
                t = p.force_resolve() if hasattr(p, 'force_resolve') else p
                t = getattr(p, '_wrapped', None) or t
                lb = rset.get_resource(URI(os.path.join(d, 'b.xmi')))
                problems = []
                if t.name != tname:
                    problems.append(f'the proxy stands for {t.name}')
                if t.eContainer() is not h or t.eContainmentFeature() is None or t.eContainmentFeature().name != 'slot':
                    problems.append('eContainer() / eContainmentFeature() are not the holder and its reference')
                if t.eResource is not ra:
                    problems.append('eResource is not the resource of the holder')
                if any(x is t for x in lb.contents):
                    problems.append('it is still a root of the document it came from')
                if any(x is t for r in lb.contents for o in [r] + list(r.eAllContents()) for x in o.kids):
                    problems.append('it is still a child of its previous container')
            except Exception as e:
                problems = [f'inspecting the result raised {type(e).__name__}: {e}']
            if problems:
                ctx.violate({'clause': 'multi-owner', 'through_proxy': True, 'unresolved': True},
                            f'multi-owner: an unresolved proxy for {tname} of another document given to a {"many" if many else "single"}-valued containment: '
                            + '; '.join(problems), rep)
                return
    finally:
        shutil.rmtree(tmp, ignore_errors=True)


def negative_insert_pass(ctx):
    """a child inserted at a position counted from the end (`insert(-k, c)`, in range and beyond), then each sibling in turn
    leaves — removed, discarded, popped by position, given to another container, deleted: after every step every child is
    listed by exactly the container it names, and by nobody else (unique and list-like containment references)"""
    from pyecore import ecore as E
    leaves = ['remove', 'discard', 'pop', 'move', 'delete', 'setitem']
    for unique in (True, False):
        for n in range(1, 5):
            for k in range(1, n + 3):
                for leave in leaves:
                    for victim in range(n + 1):
                        A = E.EClass('A')
                        A.eStructuralFeatures.extend([E.EAttribute('name', E.EString),
                                                      E.EReference('kids', A, upper=-1, containment=True, unique=unique)])
                        p, q = A(name='p'), A(name='q')
                        kids = [A(name=f'c{i}') for i in range(n)]
                        p.kids.extend(kids)
                        new = A(name='new')
                        expect = list(kids)
                        expect.insert(-k, new)
                        try:
                            p.kids.insert(-k, new)
                            v = expect[victim]
                            if leave == 'remove':
                                p.kids.remove(v)
                            elif leave == 'discard':
                                p.kids.discard(v) if hasattr(p.kids, 'discard') else p.kids.remove(v)
                            elif leave == 'pop':
                                p.kids.pop(victim)
                            elif leave == 'move':
                                q.kids.append(v)
                            elif leave == 'delete':
                                v.delete()
                            else:
                                repl = A(name='repl')
                                p.kids[victim] = repl
                                expect[victim] = repl
                                expect.append(v)            # (kept in the list below only to be looked at)
                        except Exception as e:
                            ctx.count(f'negative-insert/raised/{leave}/{type(e).__name__}')
                            continue
                        ctx.evaluations += 1
                        ctx.count(f'negative-insert/{"unique" if unique else "list"}/{leave}')
                        ctx.nontriv(('negative-insert', unique, n, k, leave, victim))
                        problems = []
                        for o in expect:
                            holders = [h.name for h in (p, q) for x in h.kids if x is o]
                            c = o.eContainer()
                            said = [c.name] if c is not None else []
                            if holders != said:
                                problems.append(f'{o.name} is listed by {holders or "nobody"} and names {said or "no container"}')
                            for h in (p, q):
                                if (o in h.kids) != any(x is o for x in h.kids):
                                    problems.append(f'`{o.name} in {h.name}.kids` contradicts iteration')
                        if problems:
                            ctx.violate({'clause': 'multi-owner', 'history': 'negative-insert'},
                                        f'{"unique" if unique else "list-like"} containment with {n} children, insert(-{k}, new), then '
                                        f'child {victim} leaves by {leave}: ' + '; '.join(problems[:3]),
                                        {'negative_insert': [unique, n, k, leave, victim]})
                            return


def run(ctx):
    storecheck.run(ctx, CHECKS)
    equal_owner_pass(ctx)
    resource_extend_pass(ctx)
    proxy_containment_pass(ctx)
    negative_insert_pass(ctx)


def search(ctx):
    storecheck.search(ctx, CHECKS)


def replay(ctx, data):
    rp = data.get('replay', {})
    if 'equal_owner' in rp or 'resource_extend' in rp:
        from . import common
        common.use_repo()
        c2 = common.Ctx('C02', 'quick', data.get('seed', 0))
        (equal_owner_pass if 'equal_owner' in rp else resource_extend_pass)(c2)
        for v in c2.violations:
            print('  ', v['what'])
        return 1 if c2.violations else 0
    return storecheck.replay(ctx, data, CHECKS)
