"""Models spread over several resources, saved, and loaded again in a fresh resource set: the slots then hold proxies
(resolved once followed, unresolved before).  Two passes over such worlds:

* `symmetry_pass` (C01): every reference followed, then bidirectional references re-pointed / extended / reduced with
  the *instances* found by navigating the resources directly; after every call every opposite pair is symmetric
  (proxies standing for their targets).
* `notification_pass` (C05): nothing followed; unresolved proxies, local objects and None are stored into single- and
  many-valued references with an observer on every object and on the resource; an observer-side mirror (by identity of
  the stored values) is compared with the slots after every call.
"""
import os
import shutil
import tempfile
from . import common, models
from .c08 import unproxy
from . import c14


def _load(rng, h, tmp, fmt, follow):
    from pyecore.resources import ResourceSet, URI
    from pyecore.resources.json import JsonResource
    case_dir = os.path.join(tmp, f'cw{h}')
    os.makedirs(case_dir)
    sp, built, ms, rset, paths, ncross = c14.build_world(rng, h, case_dir, fmt, rng.choice([2, 2, 3]))
    for p in paths:
        rset.resources[URI(p).normalize()].save()
    rset2 = ResourceSet()
    rset2.resource_factory['json'] = lambda uri: JsonResource(uri)
    rset2.metamodel_registry[built[0].nsURI] = built[0]
    first = rset2.get_resource(URI(paths[0]))
    if follow:
        for o in c14.preorder(first.contents):
            for f in _refs(o):
                v = o.eGet(f)
                for t in (list(v) if f.many else ([v] if v is not None else [])):
                    _ = t.eClass
        res = [rset2.get_resource(URI(p)) for p in paths]
        for r in (res if follow is True else []):      # follow == 'first': the other resources' references stay unfollowed
            for o in c14.preorder(r.contents):
                for f in _refs(o):
                    v = o.eGet(f)
                    for t in (list(v) if f.many else ([v] if v is not None else [])):
                        _ = t.eClass
    else:
        res = [first]
    return sp, built, rset2, res, ncross


def _refs(o):
    # eAllReferences() walks a *set* of supertypes: its order differs from run to run
    return sorted(o.eClass.eAllReferences(), key=lambda f: f.name)


def _vals(o, f):
    v = o.eGet(f)
    return list(v) if f.many else ([v] if v is not None else [])


def asymmetric(objs):
    for x in objs:
        for f in _refs(x):
            g = f.eOpposite
            if g is None:
                continue
            for y in _vals(x, f):
                yr = unproxy(y)
                if not any(unproxy(z) is x for z in _vals(yr, g)):
                    return f'{x.eClass.name}.{f.name} holds an object whose {g.name} does not hold it back'
    return None


def symmetry_pass(ctx, tag='C01'):
    n = 60 if ctx.quick() else 1200
    nops = 12 if ctx.quick() else 20
    tmp = tempfile.mkdtemp(prefix='verif_cw_')
    try:
        for h in range(n):
            rng = common.sub_rng(ctx.seed, tag, 'cross', h)
            fmt = 'xmi' if h % 3 != 2 else 'json'
            try:
                sp, built, rset2, res, ncross = _load(rng, h, tmp, fmt, True if h % 2 == 0 else 'first')
            except Exception as e:      # what a reload itself may do wrong is C14's question
                ctx.count('cross/setup-raised/' + type(e).__name__)
                continue
            objs = [o for r in res for o in c14.preorder(r.contents)]
            pairs = [(o, f) for o in objs for f in _refs(o)
                     if f.eOpposite is not None and not f.containment and not f.eOpposite.containment]
            partial = h % 2 == 1
            if partial:
                # judging symmetry follows every proxy: it is done on a second, identical load, so that the first call of
                # this one meets back references nobody has followed yet
                try:
                    rng_b = common.sub_rng(ctx.seed, tag, 'cross', h)
                    _sp, _b, _rs, res_b, _n = _load(rng_b, h + 1000000, tmp, fmt, True)
                    ok0 = not asymmetric([o for r in res_b for o in c14.preorder(r.contents)])
                except Exception:
                    ok0 = False
            else:
                ok0 = not asymmetric(objs)
            if not pairs or not ok0:
                ctx.count('cross/no-pairs-or-not-symmetric-as-loaded')
                continue
            log = []
            for step in range(nops):
                x, f = rng.choice(pairs)
                cands = [o for o in objs if f.eType.python_class and isinstance(o, f.eType.python_class)] or []
                cur = _vals(x, f)
                if f.many:
                    k = rng.random()
                    if k < .5 and cands:
                        y = rng.choice(cands)
                        if any(unproxy(v) is y for v in cur):
                            continue
                        what, call = f'{x.eClass.name}.{f.name}.append(instance)', lambda: x.eGet(f).append(y)
                    elif cur:
                        y = unproxy(rng.choice(cur))
                        what, call = f'{x.eClass.name}.{f.name}.remove(instance)', lambda: x.eGet(f).remove(y)
                    else:
                        continue
                else:
                    y = rng.choice(cands + [None]) if cands else None
                    what, call = f'{x.eClass.name}.{f.name} = {"instance" if y is not None else "None"}', lambda: x.eSet(f, y)
                # set-like collections that hold proxies hashed before they were resolved misbehave whatever is done to them
                # (recorded under C14 as F-C14-1): the collections this call touches must be free of them.  Single-valued
                # ends may hold proxies.
                g = f.eOpposite
                touched = [cur] if f.many else []
                if g.many:
                    touched += [_vals(unproxy(p), g) for p in ([y] if y is not None else []) + (cur if not f.many else [])]
                elif f.many and y is not None:
                    touched += [_vals(unproxy(q), f) for q in _vals(y, g)]        # whoever holds y now loses it
                if any(hasattr(v, '_proxy_path') for coll in touched for v in coll):
                    ctx.count('cross/skipped-proxy-in-collection')
                    continue
                log.append(what + f' [many={f.many} opposite many={f.eOpposite.many} held through proxy={any(hasattr(v, "_proxy_path") for v in cur)}]')
                ctx.evaluations += 1
                try:
                    call()
                    ctx.count('cross/op-ok')
                except Exception as e:
                    ctx.count('cross/op-raised/' + type(e).__name__)
                bad = asymmetric(objs)
                ctx.nontriv(('cross', h, step))
                if bad:
                    ctx.violate({'clause': 'sym-cross-resource', 'format': fmt, 'many': bool(f.many), 'opposite_many': bool(f.eOpposite.many)},
                                f'after `{what}` on a model loaded from {len(res)} {fmt} resources: {bad}',
                                {'case': h, 'format': fmt, 'calls': log})
                    break
    finally:
        shutil.rmtree(tmp, ignore_errors=True)


def local_asymmetry(objs):
    """among the objects of the loaded resource (proxies to elsewhere aside): y in x.f exactly when x in y.g"""
    ids = {id(o) for o in objs}
    for x in objs:
        for f in _refs(x):
            g = f.eOpposite
            if g is None:
                continue
            for y in _vals(x, f):
                if id(y) in ids and not any(z is x for z in _vals(y, g)):
                    return f'{x.eClass.name}.{f.name} holds a local object whose {g.name} does not hold it back'
    return None


def notification_pass(ctx, tag='C05', trace=None, only=None, judge='mirror'):
    from pyecore.notification import EObserver
    n = 60 if ctx.quick() else 1200
    nops = 12 if ctx.quick() else 20
    tmp = tempfile.mkdtemp(prefix='verif_cw_')
    try:
        for h in range(n):
            rng = common.sub_rng(ctx.seed, tag, 'cross', h)
            fmt = 'xmi' if h % 3 != 2 else 'json'
            try:
                sp, built, rset2, res, ncross = _load(rng, h, tmp, fmt, False)
            except Exception as e:
                ctx.count('cross/setup-raised/' + type(e).__name__)
                continue
            first = res[0]
            objs = c14.preorder(first.contents)
            raw = lambda o, f: [id(v) for v in _vals(o, f)]
            # an unresolved proxy passes every type check: it is offered only where the type of the slot it was found in
            # says it belongs
            proxies = [(v, f.eType) for o in objs for f in _refs(o) if not f.containment for v in _vals(o, f)
                       if hasattr(v, '_proxy_path') and not v.resolved]
            if not proxies:
                ctx.count('cross/no-unresolved-proxy')
                continue
            if judge == 'symmetry' and local_asymmetry(objs):
                ctx.count('cross/not-symmetric-as-loaded')
                continue
            mirror = {(id(o), f.name): raw(o, f) for o in objs for f in _refs(o)}
            seen, seen_res = [], []
            in_res = []      # was the notifier in the resource when it notified?

            def on(nt):
                seen.append(nt)
                try:
                    in_res.append(nt.notifier.eResource is first)
                except Exception:
                    in_res.append(False)
            for o in objs:
                EObserver(o, notifyChanged=on)
            EObserver(notifyChanged=seen_res.append).observe(first)
            slots = [(o, f) for o in objs for f in _refs(o) if not f.containment and not f.derived
                     and not (f.eOpposite is not None and f.eOpposite.containment)]      # (moving objects between containers is C02's)
            log = []
            for step in range(nops):
                x, f = rng.choice(slots)
                cur = _vals(x, f)
                k = rng.random()
                fits = [v for (v, t) in proxies if not v.resolved and (t is f.eType or f.eType in t.eAllSuperTypes())]
                locs = [o for o in objs if isinstance(o, f.eType.python_class)]
                if k < .55 and fits:
                    y, kind = rng.choice(fits), 'an unresolved proxy'
                elif k < .8 and locs:
                    y, kind = rng.choice(locs), 'a local object'
                else:
                    y, kind = None, 'None'
                if f.many:
                    if y is None or any(v is y for v in cur):
                        if not cur:
                            continue
                        y = rng.choice(cur)
                        what, call = f'{x.eClass.name}.{f.name}.remove(a held value)', lambda: x.eGet(f).remove(y)
                    else:
                        what, call = f'{x.eClass.name}.{f.name}.append({kind})', lambda: x.eGet(f).append(y)
                else:
                    what, call = f'{x.eClass.name}.{f.name} = {kind}', lambda: x.eSet(f, y)
                what += f' [opposite={f.eOpposite is not None}]'
                # a proxy that sits in a set-like collection and is resolved later can no longer be found there (recorded
                # under C14 as F-C14-1); collections of local objects that hold proxies are left alone here
                g = f.eOpposite
                touched = [cur] if f.many else []
                if g is not None and g.many:
                    touched += [_vals(p, g) for p in ([y] if y is not None else []) + (cur if not f.many else [])
                                if not hasattr(p, '_proxy_path')]
                if any(hasattr(v, '_proxy_path') for coll in touched for v in coll) or (f.many and hasattr(y, '_proxy_path')):
                    ctx.count('cross/skipped-proxy-in-collection')
                    continue
                log.append(what)
                del seen[:], seen_res[:], in_res[:]
                ctx.evaluations += 1
                try:
                    call()
                    ctx.count('cross/op-ok')
                except Exception as e:
                    ctx.count('cross/op-raised/' + type(e).__name__)
                    log[-1] += f' -> raised {type(e).__name__}: {str(e)[:80]}'
                    what += f' -> raised {type(e).__name__}: {str(e)[:80]}'
                if trace and (only is None or h == only):
                    trace(h, what, x, f, y, list(seen), list(seen_res), objs)
                for nt in seen:
                    key = (id(nt.notifier), nt.feature.name)
                    m = mirror.setdefault(key, [])
                    kd = nt.kind.name
                    if kd in ('SET', 'UNSET'):
                        m[:] = [] if nt.new is None else [id(nt.new)]
                    elif kd in ('ADD', 'ADD_MANY'):
                        for v in ([nt.new] if kd == 'ADD' else list(nt.new)):
                            if nt.feature.unique and id(v) in m:
                                continue      # a set: adding what is there changes nothing (reporting it is no violation)
                            m.append(id(v))
                    elif kd == 'REMOVE':
                        if id(nt.old) in m:
                            m.remove(id(nt.old))
                    elif kd == 'REMOVE_MANY':
                        for v in nt.old:
                            if id(v) in m:
                                m.remove(id(v))
                ctx.nontriv(('cross', h, step))
                bad = None
                if judge == 'symmetry':
                    bad = local_asymmetry(objs)
                    if bad:
                        ctx.violate({'clause': 'sym-unresolved-proxies', 'format': fmt, 'value': kind, 'many': bool(f.many)},
                                    f'after `{what}` on a model loaded from a {fmt} resource with unresolved cross references: {bad}',
                                    {'case': h, 'format': fmt, 'calls': log})
                        break
                    continue
                for o in objs:
                    for g in _refs(o):
                        if g.derived:
                            continue
                        if sorted(raw(o, g)) != sorted(mirror.get((id(o), g.name), [])):
                            bad = f'{o.eClass.name}.{g.name} (many={g.many} opposite={g.eOpposite is not None}): the slot and its observer-side mirror differ'
                            break
                    if bad:
                        break
                if not bad and any(inr and not any(a is b for b in seen_res) for a, inr in zip(seen, in_res)):
                    bad = 'a notification of an object of the resource did not reach the resource observer'
                if bad:
                    ctx.violate({'clause': 'mirror-cross-resource', 'format': fmt, 'value': kind, 'opposite': f.eOpposite is not None},
                                f'after `{what}` on a model loaded from a {fmt} resource with unresolved cross references: {bad}',
                                {'case': h, 'format': fmt, 'calls': log})
                    break
    finally:
        shutil.rmtree(tmp, ignore_errors=True)


def deletion_pass(ctx, tag='C07'):
    """C07 across resources: a holder loaded from one resource refers (through a reference without opposite) to an
    object of another one; the proxy is resolved — by reading something through it, by force_resolve(), or not at all
    before the target is reached by navigating its own resource — and the target is deleted: no holder may be left with
    a value standing for it.  (Unique many-valued holders are C14's recorded finding F-C14-1 and left out.)"""
    from pyecore.ecore import EProxy
    n = 60 if ctx.quick() else 1000
    tmp = tempfile.mkdtemp(prefix='verif_cw_')
    try:
        for h in range(n):
            rng = common.sub_rng(ctx.seed, tag, 'cross-delete', h)
            fmt = 'xmi' if h % 3 != 2 else 'json'
            try:
                if h % 4 == 0:
                    sp, built, rset2, res, ncross = _load(rng, h, tmp, fmt, False)
                else:
                    res = [_small_world(rng, h, tmp, fmt)]
            except Exception as e:
                ctx.count('cross-delete/setup-raised/' + type(e).__name__)
                continue
            first = res[0]
            objs = c14.preorder(first.contents)
            holders = [(o, f, v) for o in objs for f in _refs(o)
                       if f.eOpposite is None and not f.containment and not f.derived and not (f.many and f.unique)
                       for v in _vals_raw(o, f) if isinstance(v, EProxy) and not v.resolved]
            if not holders:
                ctx.count('cross-delete/no-unresolved-holder')
                continue
            o, f, p = rng.choice(holders)
            how = rng.choice(['read-through-proxy', 'read-through-proxy', 'force_resolve', 'eClass-through-proxy', 'delete-the-proxy'])
            if how == 'delete-the-proxy':
                # the stand-in itself is deleted, unresolved as it is (nothing is loaded for that): whoever held it lets go
                ctx.evaluations += 1
                ctx.count('cross-delete/' + how)
                ctx.nontriv(('cross-delete', h))
                nres = len(first.resource_set.resources) if first.resource_set else None
                try:
                    p.delete()
                except Exception as e:
                    ctx.violate({'clause': 'delete-raised', 'trigger': 'none', 'cross': True},
                                f'delete-raised: delete() of an unresolved proxy ({fmt}) raised {type(e).__name__}: {e}',
                                {'cross_delete': True, 'case': h, 'format': fmt, 'how': how})
                    break
                left = next((f'{x.eClass.name}.{g.name} (many={g.many})' for x in objs for g in _refs(x)
                             if not g.derived and not (g.many and g.unique) for v in _vals_raw(x, g) if v is p), None)
                if left:
                    ctx.violate({'clause': 'dangling', 'trigger': 'none', 'cross': True},
                                f'dangling: after delete() of an unresolved proxy ({fmt}): {left} still holds it',
                                {'cross_delete': True, 'case': h, 'format': fmt, 'how': how})
                    break
                continue
            try:
                if how == 'force_resolve':
                    p.force_resolve()
                elif how == 'eClass-through-proxy':
                    _ = p.eClass
                else:
                    _ = p.eContainer()
                target = p._wrapped
            except Exception as e:
                ctx.count('cross-delete/resolve-raised/' + type(e).__name__)
                continue
            if target is None or not hasattr(target, 'delete'):
                continue
            if not f.many and rng.random() < .4:
                # the slot that held the target through the proxy is given the target itself (and, sometimes, the proxy
                # back): the same object behind two wrappers — whoever holds it must still let go of it
                try:
                    o.eSet(f, target)
                    how += '+instance-assigned'
                    if rng.random() < .4:
                        o.eSet(f, p)
                        how += '+proxy-again'
                except Exception:
                    pass
            ctx.evaluations += 1
            ctx.count('cross-delete/' + how)
            ctx.nontriv(('cross-delete', h))
            recursive = rng.random() < .7
            doomed = [target] + (list(target.eAllContents()) if recursive else [])
            try:
                target.delete(recursive=recursive)
            except Exception as e:
                ctx.violate({'clause': 'delete-raised', 'trigger': 'none', 'cross': True},
                            f'delete-raised: delete() of an object held from another resource ({fmt}, proxy resolved by {how}) '
                            f'raised {type(e).__name__}: {e}', {'cross_delete': True, 'case': h, 'format': fmt, 'how': how})
                break
            left = None
            for x in objs:
                for g in _refs(x):
                    if g.derived or (g.many and g.unique):
                        continue
                    for v in _vals_raw(x, g):
                        t = v._wrapped if isinstance(v, EProxy) and v.resolved else v
                        if any(t is d for d in doomed):
                            left = f'{x.eClass.name}.{g.name} (many={g.many}) still holds a value standing for a deleted object'
            if left:
                ctx.violate({'clause': 'dangling', 'trigger': 'none', 'cross': True},
                            f'dangling: after delete() of an object held from another resource ({fmt}, proxy resolved by {how}): {left}',
                            {'cross_delete': True, 'case': h, 'format': fmt, 'how': how})
                break
    finally:
        shutil.rmtree(tmp, ignore_errors=True)


def _small_world(rng, h, tmp, fmt):
    """two files: holders in the first refer, through references without opposite (single-valued, list-like), to objects
    at several depths of the second; the first is loaded in a fresh resource set"""
    from pyecore import ecore as E
    from pyecore.resources import ResourceSet, URI
    from pyecore.resources.json import JsonResource
    pk = E.EPackage('cd', f'http://verif/cd{h}', 'cd')
    N = E.EClass('N')
    pk.eClassifiers.append(N)
    N.eStructuralFeatures.extend([E.EAttribute('name', E.EString), E.EReference('one', N), E.EReference('other', N),
                                  E.EReference('lst', N, upper=-1, unique=False),
                                  E.EReference('kids', N, upper=-1, containment=True)])
    d = os.path.join(tmp, f'sw{h}', rng.choice(['', 'sub', 'my dir']))
    os.makedirs(d, exist_ok=True)

    def rs():
        r = ResourceSet()
        r.resource_factory['json'] = lambda uri: JsonResource(uri)
        r.metamodel_registry[pk.nsURI] = pk
        return r
    w = rs()
    broot = N(name='b')
    bs = [broot]
    for i in range(rng.randint(2, 5)):
        k = N(name=f'b{i}')
        rng.choice(bs).kids.append(k)
        bs.append(k)
    aroot = N(name='a')
    holders = [aroot]
    for i in range(rng.randint(1, 3)):
        k = N(name=f'a{i}')
        aroot.kids.append(k)
        holders.append(k)
    for x in holders:
        if rng.random() < .7:
            x.one = rng.choice(bs)
        if rng.random() < .4:
            x.other = rng.choice(bs + holders)
        picks = rng.sample(bs, rng.randint(0, min(3, len(bs))))
        x.lst.extend(picks)
    rb = w.create_resource(URI(os.path.join(d, f'b.{fmt}')))
    rb.append(broot)
    ra = w.create_resource(URI(os.path.join(tmp, f'sw{h}', f'a.{fmt}')))
    ra.append(aroot)
    rb.save(); ra.save()
    return rs().get_resource(URI(os.path.join(tmp, f'sw{h}', f'a.{fmt}')))


def _vals_raw(o, f):
    """the values as stored (proxies as proxies), without comparing or following them"""
    v = o.eGet(f)
    if f.many:
        return list(getattr(v, 'items', v)) if not isinstance(v, list) else list(v)
    return [v] if v is not None else []
