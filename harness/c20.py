"""C20 — declared operations are callable with their declared signature (DESIGN.md section 4)."""
import inspect
import itertools
import keyword
import sys
import types
from . import common

AUDIT_MODULES = ()


def _hook(ctx):
    from . import extract as ex
    common.use_repo()
    kws, changed, tied = ex.gen_keywords()
    ctx.extra['keyword_table_rows'] = len(kws)
    ctx.extra['keyword_table_regenerated'] = changed
    ctx.extra['normalized_name_consults_iskeyword'] = tied
    ctx.table_obligations = 1      # kw_underscore_not_kw over the regenerated table


extract = _hook

SENTINEL = object()


def fmt_params(params):
    return ' '.join(f"{n}:{'r' if r else 'o'}" for (n, r, _t) in params)


def real_signature(o, mname, nparams):
    """-> (bound signature rendered like the model, call-outcome string, defaults) on the real method"""
    m = getattr(o, mname)
    sig = inspect.signature(m)
    parts, defaults = [], []
    for p in sig.parameters.values():
        if p.kind not in (p.POSITIONAL_OR_KEYWORD,):
            parts.append('?' + p.name)
            continue
        if p.default is p.empty:
            parts.append(p.name)
        else:
            parts.append(p.name + '='); defaults.append(p.default)
    calls = []
    for k in range(nparams + 1 + 2):
        try:
            m(*([1] * k))
            calls.append('R')
        except NotImplementedError:
            calls.append('N')
        except TypeError:
            calls.append('T')
        except Exception as e:
            calls.append('E:' + type(e).__name__)
    return ','.join(parts), ''.join(calls), defaults


def sig_case(ctx, E, name, params, lines, reals, label):
    """one declaration on A (B < A): instance of B made before and after; everything the statement lists"""
    from pyecore.behavior import behavior
    A = E.EClass('A'); B = E.EClass('B', superclass=(A,)); C = E.EClass('C')
    before = B()
    op = E.EOperation(name, params=[E.EParameter(n, t, required=r) for (n, r, t) in params])
    decl = f'{name}({fmt_params(params)})'
    rep = {'name': name, 'params': [(n, r, getattr(t, "name", str(t))) for (n, r, t) in params]}
    ordered = all(not (not params[i][1] and params[i + 1][1]) for i in range(len(params) - 1))
    underscore = name.startswith('_') or any(n.startswith('_') for (n, _r, _t) in params)
    try:
        A.eOperations.append(op)
    except Exception as e:
        if ordered:
            msg = str(e)
            trig = ('name-refused-by-restricted-compiler' if isinstance(e, SyntaxError) and
                    ('invalid variable name because it starts with "_"' in msg or 'is a reserved name' in msg) else 'other')
            ctx.violate({'clause': 'add-raised', 'trigger': trig},
                        f'declaring {decl} raised {type(e).__name__}: {str(e)[:120]}', rep)
        lines.append(f'sig {name} {fmt_params(params)}'); reals.append(('raised', decl, rep)); ctx.count('sig/' + label + '/rejected')
        return
    after = B()
    mname = name + '_' if keyword.iskeyword(name) else name     # the statement's rule, independently of normalized_name
    want_sig = ','.join(n if r else n + '=' for (n, r, _t) in params)
    nreq = sum(1 for p in params if p[1])
    want_calls = ''.join('N' if nreq <= k <= len(params) else 'T' for k in range(len(params) + 3))
    row = None
    for who, o in (('instance of the subtype created before', before), ('instance of the subtype created after', after), ('instance', A())):
        ctx.evaluations += 1
        if not hasattr(o, mname):
            ctx.violate({'clause': 'method-missing'}, f'{decl}: {who} has no method {mname}', rep); return
        got_sig, got_calls, defaults = real_signature(o, mname, len(params))
        row = (got_sig, got_calls)
        if got_sig != want_sig:
            ctx.violate({'clause': 'signature'}, f'{decl}: {who}.{mname} has signature ({got_sig}), declared ({want_sig})', rep); return
        if got_calls != want_calls:
            ctx.violate({'clause': 'call-outcome'}, f'{decl}: calls with 0..{len(params) + 2} positional arguments give {got_calls} '
                        f'(N=NotImplementedError T=TypeError), declared signature says {want_calls}', rep); return
        want_defaults = [getattr(t, 'default_value', None) for (n, r, t) in params if not r]
        if len(defaults) != len(want_defaults) or any(not (a is b or a == b) for a, b in zip(defaults, want_defaults)):
            ctx.violate({'clause': 'default-value'}, f'{decl}: defaults {defaults!r}, the types say {want_defaults!r}', rep); return
    if hasattr(C(), mname):
        ctx.violate({'clause': 'method-leaks'}, f'{decl}: an unrelated class got {mname}', rep); return
    lines.append(f'sig {name} {fmt_params(params)}'); reals.append((f'{mname} | {row[0]} | {row[1]}', decl, rep))
    ctx.count('sig/' + label)
    ctx.nontriv(('sig', name, tuple((n, r) for (n, r, _t) in params)))
    # behaviour attached: the call now returns what the behaviour returns
    src = f"def {mname}(self, *a):\n    return ('ran', a)\n"
    ns = {}
    exec(src, ns)
    behavior(A)(ns[mname])
    try:
        res = getattr(before, mname)(*([1] * nreq))
        if res != ('ran', tuple([1] * nreq)):
            ctx.violate({'clause': 'behaviour'}, f'{decl}: attached behaviour returned {res!r}', rep); return
    except Exception as e:
        ctx.violate({'clause': 'behaviour'}, f'{decl}: after attaching a behaviour the call raised {type(e).__name__}: {e}', rep); return
    try:
        A.eOperations.remove(op)
    except Exception as e:
        ctx.violate({'clause': 'remove-raised'}, f'removing {decl} raised {type(e).__name__}: {str(e)[:100]}', rep); return
    for who, o in (('before', before), ('after', after), ('new', B())):
        if hasattr(o, mname):
            ctx.violate({'clause': 'method-stays'}, f'{decl} removed, instance ({who}) still has {mname}', rep); return


def twin_ops_pass(ctx):
    """operations that look alike — same name, same parameter names, same required flags — on unrelated classes, with
    optional parameters of *different* types whose defaults are not literals (two enumerations, an enumeration and a
    string): each generated method is defaulted by its own declaration, before and after the other one is declared"""
    E = _ecore()
    n = 16 if ctx.quick() else 200
    for k in range(n):
        rng = common.sub_rng(ctx.seed, 'C20', 'twins', k)
        Colour = E.EEnum('Colour', literals=['RED', 'GREEN'])
        Weight = E.EEnum('Weight', literals=['PLAIN', 'BOLD'])
        types_ = [Colour, Weight, E.EString, E.EInt, E.EBoolean, E.EDate]
        t1, t2 = rng.sample(types_, 2)
        nreq = rng.randint(0, 2)

        def make(t):
            return E.EOperation('render', params=[E.EParameter(f'a{i}', E.EInt, required=True) for i in range(nreq)] +
                                [E.EParameter('style', t, required=False)])
        P, Q = E.EClass('P'), E.EClass('Q')
        PS = E.EClass('PS', superclass=(P,))
        op1, op2 = make(t1), make(t2)
        P.eOperations.append(op1)
        early = PS()
        Q.eOperations.append(op2)
        ctx.evaluations += 1
        ctx.count('twins')
        ctx.nontriv(('twins', k))
        for who, o, t in (('instance of the first class', P(), t1), ('instance of its subtype created before the second declaration', early, t1),
                          ('instance of the second class', Q(), t2)):
            sig = inspect.signature(o.render)
            d = sig.parameters['style'].default
            want = t.default_value
            if not (d is want or (d == want and type(d) is type(want))):
                ctx.violate({'clause': 'default-value', 'twins': True},
                            f'default-value: render(…, style: {t1.name}) on P and render(…, style: {t2.name}) on Q: {who} has style={d!r}, '
                            f'its own declaration says {want!r}', {'twins': k, 'types': [t1.name, t2.name]})
                return


def below_static_pass(ctx):
    """a dynamic class whose supertype is a statically defined class (given to the constructor or appended afterwards):
    an operation added to it gives its instances the method, next to the methods inherited from the static class"""
    E = _ecore()
    import types as _t
    for k in range(8 if ctx.quick() else 60):
        rng = common.sub_rng(ctx.seed, 'C20', 'below-static', k)
        src = ('from pyecore.ecore import *\n' + ('@EMetaclass\nclass S(object):\n' if k % 2 else 'class S(EObject, metaclass=MetaEClass):\n') +
               '    x = EAttribute(eType=EString)\n    def hello(self, a, b=1):\n        return a\n')
        mod = _t.ModuleType(f'c20_below_{k}')
        sys.modules[mod.__name__] = mod
        try:
            exec(compile(src, mod.__name__, 'exec'), mod.__dict__)
        finally:
            sys.modules.pop(mod.__name__, None)
        how = rng.choice(['constructor', 'append'])
        if how == 'constructor':
            D = E.EClass('D', superclass=(mod.S.eClass,))
        else:
            D = E.EClass('D')
            D.eSuperTypes.append(mod.S.eClass)
        nreq = rng.randint(0, 2)
        D.eOperations.append(E.EOperation('run', params=[E.EParameter(f'a{i}', E.EInt, required=True) for i in range(nreq)] +
                                          [E.EParameter('opt', E.EString, required=False)]))
        ctx.evaluations += 1
        ctx.count('below-static/' + how)
        ctx.nontriv(('below-static', k))
        d = D()
        problem = None
        if not hasattr(d, 'run'):
            problem = 'instances have no method `run`'
        else:
            try:
                d.run(*([1] * nreq))
                problem = 'the call did not raise NotImplementedError'
            except NotImplementedError:
                pass
            except Exception as e:
                problem = f'the call raised {type(e).__name__}'
            if not problem and d.hello(5) != 5:
                problem = 'the inherited static method is gone'
            if not problem:
                # the declaration of the live operation grows (what a loader does: the operation first, its parameters later)
                op_ = D.eOperations[0]
                op_.eParameters.insert(nreq, E.EParameter('late', E.EInt, required=True))
                for o_, when in ((d, 'created before'), (D(), 'created after')):
                    try:
                        o_.run(*([1] * (nreq + 1)))
                        problem = f'after a required parameter was added, the call with it did not raise NotImplementedError ({when})'
                    except NotImplementedError:
                        pass
                    except Exception as e:
                        problem = f'after a required parameter was added, the call with it raised {type(e).__name__} ({when})'
                    if problem:
                        break
                    try:
                        o_.run(*([1] * nreq))
                        problem = f'after a required parameter was added, the call without it was accepted ({when})'
                    except TypeError:
                        pass
                    except NotImplementedError:
                        problem = f'after a required parameter was added, the call without it reached the method ({when})'
                    if problem:
                        break
        if problem:
            ctx.violate({'clause': 'method-presence', 'below_static': True},
                        f'method-presence: dynamic class D with a static supertype ({how}), operation run added: {problem}',
                        {'below_static': k, 'how': how})
            return


def _ecore():
    from pyecore import ecore as E
    return E


def signature_pass(ctx):
    from pyecore import ecore as E
    lines, reals = [], []
    strdt = E.EDataType('StrD', str, default_value="it's")
    enum = E.EEnum('En', literals=['A', 'B'])
    types_ = [E.EInt, E.EString, E.EBoolean, E.EFloat, E.EDate, strdt, enum, E.EStringToStringMapEntry]
    names = ['f', 'compute', 'class', 'def', 'match', 'class_', 'None_', 'lambda', 'x1'] + (
        [] if ctx.quick() else list(keyword.kwlist) + list(keyword.softkwlist))
    maxn = 3 if ctx.quick() else 4
    rng = common.sub_rng(ctx.seed, 'C20', 'sig')
    for nreq in range(maxn + 1):
        for nopt in range(maxn + 1):
            for name in names:
                params = [(f'r{i}', True, rng.choice(types_)) for i in range(nreq)] + \
                         [(f'o{i}', False, types_[(i + nopt + len(name)) % len(types_)]) for i in range(nopt)]
                sig_case(ctx, E, name, params, lines, reals, 'ordered')
    # every optional type once, alone
    for t in types_:
        sig_case(ctx, E, 'g', [('p', False, t)], lines, reals, 'ordered')
    # malformed stream: a required parameter after an optional one (outside the statement; model and code must agree it is rejected)
    for pat in itertools.product([True, False], repeat=3):
        params = [(f'p{i}', r, E.EInt) for i, r in enumerate(pat)]
        sig_case(ctx, E, 'h', params, lines, reals, 'any-order')
    # names the generated source cannot carry
    for name, params in (('_hidden', []), ('f', [('_p', True, E.EInt)]), ('print', [])):
        sig_case(ctx, E, name, params, lines, reals, 'underscore')
    # normalized_name against the table
    words = list(keyword.kwlist) + list(keyword.softkwlist) + ['a', 'class_', 'Class', 'none', 'NONE', 'true', 'async_', 'é']
    for wd in words:
        lines.append(f'norm {wd}'); reals.append((E.EOperation(wd).normalized_name(), f'normalized_name({wd})', {'name': wd}))
    outs = common.run_driver('ops', lines)
    for (real, decl, rep), out, line in zip(reals, outs, lines):
        ctx.evaluations += 1
        if real == 'raised':
            if not out.endswith('| invalid') and not any(s.startswith('_') or s == 'print' for s in [rep['name']] + [p[0] for p in rep['params']]):
                ctx.diverge(f'{decl}: the implementation rejects the declaration, the model accepts it ({out})', rep)
            continue
        model = out.rsplit(' | ', 1)[0] if line.startswith('sig') else out
        if line.startswith('sig') and out.endswith('| invalid'):
            ctx.diverge(f'{decl}: the model rejects the declaration, the implementation accepts it', rep)
        elif model != real:
            ctx.diverge(f'{decl}: implementation {real!r}, model {model!r}', rep)


# ---------------------------------------------------------------------------------------------
# histories over an inheritance graph

def supers_of(c):
    out = []
    for s in c.eSuperTypes:
        for t in [s] + supers_of(s):
            if t not in out:
                out.append(t)
    return out


def history_case(ctx, h, nsteps, lines, reals):
    from pyecore import ecore as E
    from pyecore.behavior import behavior
    rng = common.sub_rng(ctx.seed, 'C20', 'hist', h)
    n = rng.randint(2, 4)
    classes = [E.EClass(f'K{i}') for i in range(n)]
    instances = []
    names = []           # (number, method name)
    numof = {}
    log = []
    attached = {}        # (class index, method name) -> True
    pool = ['op', 'class', 'run', 'def', 'pass', 'go']

    def row():
        rows = []
        for i, (o, c) in enumerate(instances):
            g = ''.join('D' if hasattr(o, mn) else 'N' for (_k, mn) in names)
            inst = ''.join('1' if isinstance(o, k) else '0' for k in classes)
            rows.append(f'i{i}:{g}:{inst}')
        return ' '.join(rows)

    def emit(line, compare=True):
        lines.append(line); reals.append((h, row() if compare else None, line))
    lines.append('reset'); reals.append((h, 'ok', 'reset'))
    for _ in classes:
        emit('newclass')
    counter = 0
    problem = None
    for step in range(nsteps):
        k = rng.random()
        c = rng.choice(classes); ci = classes.index(c)
        try:
            if k < .3:
                batch = 1 if rng.random() < .7 else 2
                ops = []
                for _ in range(batch):
                    counter += 1
                    base = rng.choice(pool)
                    live = {o.name for k_ in classes for o in k_.eOperations} | {o.name for o in ops}
                    # a keyword name may come back after it was removed (re-adding); never two live declarations of one name
                    nm = base if keyword.iskeyword(base) and base not in live else f'{base}{counter}'
                    nreq = rng.randint(0, 2)
                    ops.append(E.EOperation(nm, params=[E.EParameter(f'p{i}', E.EInt, required=True) for i in range(nreq)]))
                how = rng.choice(['append', 'insert']) if batch == 1 else 'extend'
                if how == 'append':
                    c.eOperations.append(ops[0])
                elif how == 'insert':
                    c.eOperations.insert(0, ops[0])
                else:
                    c.eOperations.extend(ops)
                log.append(f'{c.name}.eOperations.{how} {[o.name for o in ops]}')
                for oi, o in enumerate(ops):
                    mn = o.name + '_' if keyword.iskeyword(o.name) else o.name
                    if mn not in numof:
                        numof[mn] = len(numof) + 100
                        names.append((numof[mn], mn))
                    emit(f'addop {ci} {numof[mn]}', compare=(oi == len(ops) - 1))   # extend() is one step of the code
            elif k < .45 and len(c.eOperations):
                cur = list(c.eOperations)
                op = rng.choice(cur)
                how = rng.choice(['remove', 'pop', 'del', 'clear', 'delslice'])
                idx = cur.index(op)
                gone = [op]
                if how == 'remove':
                    c.eOperations.remove(op)
                elif how == 'pop':
                    c.eOperations.pop(idx)
                elif how == 'del':
                    del c.eOperations[idx]
                elif how == 'clear':
                    gone = cur
                    c.eOperations.clear()
                else:
                    gone = cur
                    del c.eOperations[:]
                log.append(f'{c.name}.eOperations.{how} {[x.name for x in gone]}')
                for n_, x in enumerate(gone):
                    mn = x.name + '_' if keyword.iskeyword(x.name) else x.name
                    attached.pop((ci, mn), None)
                    emit(f'removeop {ci} {numof[mn]}', compare=(n_ == len(gone) - 1))
            elif k < .6:
                cands = [x for x in classes if x is not c and x not in c.eSuperTypes and c not in supers_of(x)]
                if not cands:
                    continue
                s_ = rng.choice(cands); front = rng.random() < .5
                if front:
                    c.eSuperTypes.insert(0, s_)
                else:
                    c.eSuperTypes.append(s_)
                log.append(f'{c.name}.add-supertype {s_.name}')
                emit(f'addsuper {ci} {classes.index(s_)} {int(front)}')
            elif k < .67 and len(c.eSuperTypes):
                s_ = rng.choice(list(c.eSuperTypes)); c.eSuperTypes.remove(s_)
                log.append(f'{c.name}.remove-supertype {s_.name}')
                emit(f'removesuper {ci} {classes.index(s_)}')
            elif k < .82:
                instances.append((c(), c)); log.append(f'new {c.name}')
                emit(f'newinst {ci}')
            elif k < .9:
                # the declaration of a live operation grows (a loader attaches an operation before its parameters)
                if not len(c.eOperations):
                    continue
                op = rng.choice(list(c.eOperations))
                if len(op.eParameters) and rng.random() < .5:
                    # ... or a parameter of a live operation changes sides: the last required one becomes optional, or the
                    # first optional one required (the order required-then-optional is kept)
                    req = [p for p in op.eParameters if p.required]
                    opt = [p for p in op.eParameters if not p.required]
                    if req and (not opt or rng.random() < .5):
                        req[-1].required = False
                        log.append(f'last required parameter of {c.name}.{op.name} made optional')
                    else:
                        opt[0].required = True
                        log.append(f'first optional parameter of {c.name}.{op.name} made required')
                else:
                    op.eParameters.insert(len([p for p in op.eParameters if p.required]),
                                          E.EParameter(f'q{len(op.eParameters)}', E.EInt, required=True))
                    log.append(f'parameter added to {c.name}.{op.name}')
            else:
                if not len(c.eOperations):
                    continue
                op = rng.choice(list(c.eOperations))
                mn = op.name + '_' if keyword.iskeyword(op.name) else op.name
                ns = {}
                exec(f"def {mn}(self, *a):\n    return ('ran', '{c.name}')\n", ns)
                (behavior(c) if rng.random() < .5 else c.behavior)(ns[mn])
                attached[(ci, mn)] = True
                log.append(f'behaviour {c.name}.{mn}')
        except Exception as e:
            problem = ('edit-raised', f'`{log[-1] if log else "?"}` then the next edit raised {type(e).__name__}: {str(e)[:100]}')
            break
        ctx.count('hist/' + (log[-1].split()[0].split('.')[-1] if log else 'none'))
        # independent oracle: declared operations of the class and its transitive supertypes, by the statement's rule
        for (o, oc) in instances:
            ctx.evaluations += 1
            chain = [oc] + supers_of(oc)
            declared = {}
            for kcls in chain:
                for op in kcls.eOperations:
                    mn = op.name + '_' if keyword.iskeyword(op.name) else op.name
                    declared.setdefault(mn, (kcls, op))
            for (_num, mn) in names:
                has = hasattr(o, mn)
                if has != (mn in declared):
                    problem = ('method-presence', f'instance of {oc.name}: method {mn} {"present" if has else "missing"}, '
                               f'declared on the class or a supertype: {mn in declared}')
                    break
                if has:
                    kcls, op = declared[mn]
                    nreq = len([p for p in op.eParameters if p.required])
                    if nreq and not any((classes.index(kk), mn) in attached for kk in chain):
                        # (a behaviour attached by the history takes `*a`: its arity is its own)
                        # one argument short of the required ones: refused as any Python method refuses it
                        try:
                            getattr(o, mn)(*([1] * (nreq - 1)))
                            short = 'accepted'
                        except TypeError:
                            short = None
                        except NotImplementedError:
                            short = 'accepted'
                        except Exception:
                            short = None
                        if short:
                            problem = ('call-arity', f'{oc.name} instance .{mn}() accepted {nreq - 1} arguments where {nreq} are required '
                                       f'(parameters: {[(p.name, bool(p.required)) for p in op.eParameters]})')
                            break
                    owners = [classes.index(kk) for kk in chain if (classes.index(kk), mn) in attached
                              and any((x.name + '_' if keyword.iskeyword(x.name) else x.name) == mn for x in kk.eOperations)]
                    try:
                        res = getattr(o, mn)(*([1] * nreq))
                        if not owners:
                            problem = ('call-outcome', f'{oc.name} instance .{mn}() returned {res!r} with no behaviour attached')
                    except NotImplementedError:
                        if owners and len(declared) and len([kk for kk in chain if any((x.name + '_' if keyword.iskeyword(x.name) else x.name) == mn for x in kk.eOperations)]) == 1:
                            problem = ('call-outcome', f'{oc.name} instance .{mn}() raises NotImplementedError though a behaviour is attached')
                    except Exception as e:
                        problem = ('call-outcome', f'{oc.name} instance .{mn}() raised {type(e).__name__}: {e}')
                    if problem:
                        break
            if problem:
                break
        if problem:
            break
    ctx.traces += 1
    if instances and names:
        ctx.nontriv(('hist', h))
    if problem:
        ctx.violate({'clause': problem[0]}, f'{problem[0]}: {problem[1]} (after `{log[-1] if log else ""}`)', {'history': h, 'edits': log})


def override_pass(ctx):
    """an operation re-declared in a subtype with another parameter list (EMF allows it): instances follow the nearest
    declaration — whichever of the two was declared first, whenever the instance was created — and fall back to the
    supertype's when the subtype's is removed"""
    from pyecore import ecore as E
    n = 60 if ctx.quick() else 1500
    for h in range(n):
        rng = common.sub_rng(ctx.seed, 'C20', 'override', h)
        Base, Sub, Leaf = E.EClass('Base'), E.EClass('Sub'), E.EClass('Leaf')
        nb, ns = rng.sample(range(0, 4), 2)
        name = rng.choice(['op', 'run', 'class', 'import', 'compute'])
        mn = name + '_' if keyword.iskeyword(name) else name
        mk = lambda k: E.EOperation(name, params=[E.EParameter(f'p{i}', E.EInt, required=True) for i in range(k)])
        steps = ['inherit', 'leaf', 'base-op', 'sub-op', 'inst']
        rng.shuffle(steps)
        behaved = []
        if rng.random() < .4:
            # a behaviour given to the supertype's operation (a real method instead of the stub): the subtype's own
            # declaration still gets its own stub
            steps.insert(steps.index('base-op') + 1 + rng.randrange(len(steps) - steps.index('base-op')), 'base-behaviour')
        made, log = {}, []
        sub_op = None
        problem = None

        def expect(cls):
            """parameters of the nearest declaration seen from cls, None when none is visible"""
            chain = [cls] + supers_of(cls)
            for k in chain:
                for o in k.eOperations:
                    if o.name == name:
                        return len(o.eParameters)
            return None

        def nearest(cls):
            for k in [cls] + supers_of(cls):
                if any(o.name == name for o in k.eOperations):
                    return k
            return None

        def judge(when):
            for label, (o, cls) in made.items():
                want = expect(cls)
                has = hasattr(o, mn)
                ctx.evaluations += 1
                if has != (want is not None):
                    return f'{when}: {label} instance: method {mn} {"present" if has else "missing"}, a declaration is {"visible" if want is not None else "not visible"}'
                if want is None:
                    continue
                for k in range(0, 5):
                    try:
                        getattr(o, mn)(*([1] * k))
                        out = 'returned'
                    except NotImplementedError:
                        out = 'stub'
                    except TypeError:
                        out = 'TypeError'
                    except Exception as e:
                        out = type(e).__name__
                    ok = ('returned' if nearest(cls) in behaved else 'stub') if k == want else 'TypeError'
                    if out != ok:
                        return (f'{when}: {label} instance, nearest declaration takes {want} parameter(s): the call with {k} '
                                f'argument(s) gave {out}, expected {ok}')
            return None
        try:
            for st in steps + ['inst', 'remove-sub-op', 'inst']:
                if st == 'inherit':
                    Sub.eSuperTypes.append(Base)
                elif st == 'leaf':
                    Leaf.eSuperTypes.append(Sub)
                elif st == 'base-op':
                    Base.eOperations.append(mk(nb))
                elif st == 'sub-op':
                    sub_op = mk(ns)
                    Sub.eOperations.append(sub_op)
                elif st == 'base-behaviour':
                    from pyecore.behavior import behavior
                    ns_ = {}
                    exec(f"def {mn}(self{''.join(', p%d' % i for i in range(nb))}):\n    return 'ran'\n", ns_)
                    behavior(Base)(ns_[mn])
                    behaved.append(Base)
                elif st == 'remove-sub-op':
                    Sub.eOperations.remove(sub_op)
                else:
                    for cls in (Base, Sub, Leaf):
                        made[f'{cls.name}#{len(made)}'] = (cls(), cls)
                log.append(st)
                problem = judge(f'after {log}')
                if problem:
                    break
        except Exception as e:
            problem = f'after {log}, the next step raised {type(e).__name__}: {str(e)[:80]}'
        ctx.nontriv(('override', h))
        ctx.count('override/' + '>'.join(s_[0] for s_ in steps))
        if problem:
            ctx.violate({'clause': 'override'}, f'operation `{name}` declared with {nb} parameter(s) on Base and {ns} on Sub(Base), Leaf(Sub): {problem}',
                        {'case': h, 'name': name, 'base_params': nb, 'sub_params': ns, 'steps': steps})


def history_pass(ctx):
    n = 400 if ctx.quick() else 6000
    steps = 14 if ctx.quick() else 24
    lines, reals = [], []
    for h in range(n):
        history_case(ctx, h, steps, lines, reals)
    outs = common.run_driver('cls', lines)
    bad = set()
    for (h, real, line), out in zip(reals, outs):
        ctx.evaluations += 1
        if real is not None and real != out and h not in bad:
            bad.add(h)
            ctx.diverge(f'history {h} after `{line}`: implementation {real!r}, model {out!r}', {'history': h, 'line': line})
    ctx.extra['history_records'] = len(lines)


# ---------------------------------------------------------------------------------------------
# static reflection

_modcount = [0]


def static_case(ctx, h, lines, reals):
    from pyecore import ecore as E
    rng = common.sub_rng(ctx.seed, 'C20', 'static', h)
    entries = []     # (key, fname, kind, args, ndefaults)
    body = ['    x = EAttribute(eType=EInt)']
    nent = rng.randint(1, 6)
    for i in range(nent):
        kind = rng.choice(['function', 'function', 'function', 'static', 'class', 'dunder', 'noself', 'noargs'])
        nreq, nopt = rng.randint(0, 3), rng.randint(0, 3)
        ps = [f'a{j}' for j in range(nreq)] + [f'b{j}' for j in range(nopt)]
        # (the value of a default does not matter to whether the parameter is required: None, falsy and truthy ones)
        pstr = [f'a{j}' for j in range(nreq)] + [f'b{j}={rng.choice(["None", "0", "False", repr(""), "()", str(j), repr("x")])}' for j in range(nopt)]
        nm = f'm{i}'
        if kind == 'function':
            if rng.random() < .15:
                nm = rng.choice(['class_', '_under', 'if_', 'xml__to__json', 'load__', 'py__name'])  + str(i)
            # what a Python signature may carry beyond its positional parameters: *rest, keyword-only ones (with and
            # without default), **opts — none of them is a positional parameter, none is required of a caller by position
            tail = ''
            if rng.random() < .3:
                tail = rng.choice([', *rest', ', *rest, sep=" "', ', *, key', ', *, key=None, other', ', **opts', ', *rest, flag=False, **opts'])
            body.append(f'    def {nm}(self{"".join(", " + p for p in pstr)}{tail}):\n        return {i}')
            entries.append((nm, nm, 'function', ['self'] + ps, nopt))
        elif kind == 'static':
            body.append(f'    @staticmethod\n    def {nm}(self{"".join(", " + p for p in pstr)}):\n        return {i}')
            entries.append((nm, nm, 'static', ['self'] + ps, nopt))
        elif kind == 'class':
            body.append(f'    @classmethod\n    def {nm}(cls{"".join(", " + p for p in pstr)}):\n        return {i}')
            entries.append((nm, nm, 'class', ['cls'] + ps, nopt))
        elif kind == 'dunder':
            # (a private method `__m` is a double-underscore method too: the class dict holds it as `_Class__m`)
            nm = rng.choice(['__str__', '__len__', '__call__', f'__custom{i}__', f'__private{i}', f'__helper{i}'])
            if any(e[0] == nm for e in entries):
                continue
            body.append(f'    def {nm}(self{"".join(", " + p for p in pstr)}):\n        return {i}')
            entries.append((nm, nm, 'function', ['self'] + ps, nopt))
        elif kind == 'noself':
            body.append(f'    def {nm}(this{"".join(", " + p for p in pstr)}):\n        return {i}')
            entries.append((nm, nm, 'function', ['this'] + ps, nopt))
        else:
            body.append(f'    def {nm}():\n        return {i}')
            entries.append((nm, nm, 'function', [], 0))
    style = rng.choice(['decorator', 'metaclass'])
    _modcount[0] += 1
    modname = f'c20_static_{_modcount[0]}'
    mod = types.ModuleType(modname)
    sys.modules[modname] = mod
    src = 'from pyecore.ecore import *\n'
    src += ('@EMetaclass\nclass S(object):\n' if style == 'decorator' else 'class S(EObject, metaclass=MetaEClass):\n')
    src += '\n'.join(body) + '\n'
    src += 'class T(S):\n    def extra(self, q, r=1):\n        return 0\n'
    rep = {'case': h, 'source': src}
    try:
        exec(compile(src, modname, 'exec'), mod.__dict__)
        S, T = mod.S, mod.T
        got = [(op.name, [(p.name, bool(p.required)) for p in op.eParameters]) for op in S.eClass.eOperations]
        # oracle, from the generated description and the statement
        want = []
        for (key, fname, kind, args, nd) in entries:
            if kind == 'function' and not key.startswith('__') and args[:1] == ['self']:
                want.append((fname, [(a, j < len(args) - nd) for j, a in enumerate(args)]))
        ctx.evaluations += 1
        if sorted(got) != sorted(want):
            ctx.violate({'clause': 'static-reflection'}, f'static class reflected as {got}, its methods say {want}', rep)
        inherited = sorted(o.name for o in T.eClass.eAllOperations())
        if inherited != sorted([w[0] for w in want] + ['extra']):
            ctx.violate({'clause': 'static-inheritance'}, f'subclass operations {inherited}, expected {sorted([w[0] for w in want] + ["extra"])}', rep)
        t = T()
        for (fname, _ps) in want:
            if not callable(getattr(t, fname, None)):
                ctx.violate({'clause': 'static-method-gone'}, f'{fname} is not callable on an instance', rep)
        got_by_name = dict(got)
        for (key, fname, kind, args, nd) in entries:
            lines.append(f'fun {key} {fname} {kind} {nd} ' + ' '.join(args))
            if fname in got_by_name:
                reals.append(('op ' + fname + ' ' + ' '.join(f"{n}:{'r' if r else 'o'}" for n, r in got_by_name[fname]), rep))
            else:
                reals.append(('skip', rep))
            ctx.count('static/' + (kind if kind != 'function' else ('dunder' if key.startswith('__') else
                                                                      'method' if args[:1] == ['self'] else 'function-without-self')))
        if want:
            ctx.nontriv(('static', h))
    except Exception as e:
        ctx.violate({'clause': 'static-raised'}, f'static class definition raised {type(e).__name__}: {str(e)[:120]}', rep)
    finally:
        sys.modules.pop(modname, None)
    ctx.traces += 1


def static_pass(ctx):
    n = 300 if ctx.quick() else 4000
    lines, reals = [], []
    for h in range(n):
        static_case(ctx, h, lines, reals)
    outs = common.run_driver('ops', lines)
    for (real, rep), out, line in zip(reals, outs, lines):
        ctx.evaluations += 1
        if real != out:
            ctx.diverge(f'`{line}`: implementation {real!r}, model {out!r}', rep)


def run(ctx):
    common.use_repo()
    ctx.rule = ('(a) every declaration with 0..3 (thorough 0..4) required followed by 0..3 (0..4) optional parameters x method names incl. '
                'keywords and soft keywords x optional parameter types (numeric, string, date, custom string default, enumeration, map '
                'entry): method present on instances of the class and of a subtype created before and after, inspect.signature, default '
                'values, outcome of calls with 0..n+2 positional arguments, behaviour attachment, removal — vs the statement directly and '
                'vs the Lean model (`driver ops`); every ordering of 3 required/optional flags as malformed stream; (b) edit histories over '
                '2-4 classes (operations appended/inserted/extended, removed by remove/pop/del, keyword names, supertypes added/removed, '
                'instances, behaviours) vs the declared operations of the class and its supertypes and vs the class model (`driver cls`); '
                '(c) generated static class bodies (methods, static/class methods, dunder methods, functions without self, both '
                'definition styles, a subclass) vs the statement; (d) an operation re-declared in a subtype with another parameter list, in every order of (inherit, declare on base, declare on subtype, instantiate), then removed from the subtype: instances follow the nearest declaration; (c) is also checked and vs the model\'s `promote`. non-trivial & distinct = distinct '
                'declarations + histories with instances and operations + static bodies with at least one reflected method')
    signature_pass(ctx)
    history_pass(ctx)
    override_pass(ctx)
    static_pass(ctx)
    twin_ops_pass(ctx)
    below_static_pass(ctx)


def search(ctx):
    pass


def replay(ctx, data):
    common.use_repo()
    print('  ', data.get('what'))
    print('  ', data.get('replay'))
    return 1
