"""C08 — XMI save then load reproduces the model (DESIGN.md section 4)."""
import os
import shutil
import tempfile
from . import common, models


def unproxy(v):
    """a resolved (or resolvable) proxy stands for its target; a proxy that cannot be resolved is not judged"""
    if hasattr(v, 'force_resolve') and hasattr(v, '_proxy_path'):
        try:
            v.force_resolve()
        except Exception:
            return None
        return v._wrapped if getattr(v, 'resolved', False) else None
    return v


def wellformed(roots):
    """C01-C03 on a loaded model, by reflection: symmetric opposites, consistent containers, typed values"""
    objs = []

    def walk(o):
        objs.append(o)
        for c in o.eContents:
            walk(c)
    for r in roots:
        walk(r)
    for o in objs:
        for f in o.eClass.eAllReferences():
            vals = list(o.eGet(f)) if f.many else ([o.eGet(f)] if o.eGet(f) is not None else [])
            if f.many and f.unique:
                ids = [id(unproxy(v)) for v in vals if unproxy(v) is not None]
                if len(ids) != len(set(ids)):
                    return f'{o.eClass.name}.{f.name} (unique) holds an element twice'
            for v in vals:
                v = unproxy(v)
                if v is None:
                    continue
                if not isinstance(v, f.eType.python_class if hasattr(f.eType, 'python_class') else object):
                    return f'{o.eClass.name}.{f.name} holds a {type(v).__name__}'
                if f.eOpposite is not None:
                    back = v.eGet(f.eOpposite)
                    ok = any(unproxy(b) is o for b in back) if f.eOpposite.many else unproxy(back) is o
                    if not ok:
                        return f'{o.eClass.name}.{f.name} -> {v.eClass.name} is not mirrored by {f.eOpposite.name}'
                if f.containment and (v.eContainer() is not o or v.eContainmentFeature() is not f):
                    return f'child of {o.eClass.name}.{f.name} names another container'
    return None


def roundtrip(m, tmp, use_uuid, serialize_default, xmi_type, fmt='xmi'):
    from pyecore.resources import ResourceSet, URI
    from pyecore.resources.xmi import XMIOptions
    rset = ResourceSet()
    path = os.path.join(tmp, f'model.{fmt}')
    res = rset.create_resource(URI(path))
    res.use_uuid = use_uuid
    for r in m.roots:
        res.append(r)
    before = models.canon(m.roots)
    opts = {XMIOptions.SERIALIZE_DEFAULT_VALUES: serialize_default, XMIOptions.OPTION_USE_XMI_TYPE: xmi_type}
    res.save(options=opts)
    rset2 = ResourceSet()
    rset2.metamodel_registry[m.pk.nsURI] = m.pk
    res2 = rset2.get_resource(URI(path), options=opts)
    after = models.canon(res2.contents)
    return before, after, res2, path


def run_case(ctx, h, tmp, nobj_max):
    rng = common.sub_rng(ctx.seed, 'C08', h)
    sp = models.gen_mmspec(rng, h)
    m = models.gen_model(rng, sp, nobj=rng.randint(2, nobj_max))
    use_uuid, sd, xt = rng.random() < .35, rng.random() < .4, rng.random() < .2
    opts = f'uuid={int(use_uuid)} defaults={int(sd)} xmitype={int(xt)}'
    ctx.evaluations += 1
    ctx.count('opts/' + opts)
    ctx.count(f'objects/{min(len(m.objs), 12)}')
    ctx.count(f'roots/{min(len(m.roots), 4)}')
    try:
        before, after, res2, path = roundtrip(m, tmp, use_uuid, sd, xt)
    except Exception as e:
        import traceback
        tb = traceback.format_exc().strip().splitlines()
        ctx.violate({'clause': 'roundtrip-raised', 'error': type(e).__name__},
                    f'save/load raised {type(e).__name__}: {e} [{opts}] at {tb[-3].strip() if len(tb) > 2 else ""}',
                    {'case': h, 'options': opts})
        return
    d = models.diff_canon(before, after)
    ctx.nontriv(h)
    if d:
        ctx.violate({'clause': 'not-isomorphic'}, f'reloaded model differs: {d} [{opts}]', {'case': h, 'options': opts, 'diff': d})
        return
    wf = wellformed(res2.contents)
    if wf:
        ctx.violate({'clause': 'loaded-not-wellformed'}, f'loaded model violates C01-C03: {wf} [{opts}]', {'case': h, 'options': opts})
    if h < 2:
        ctx.sample({'case': h, 'options': opts, 'objects': len(m.objs), 'roots': len(m.roots),
                    'document_head': open(path, encoding='utf-8').read()[:400]})


def restructure(rng, res):
    """move things around in a model that has been saved, without touching a value: rotate a many-valued containment, move a
    child to another container that can hold it, rotate the roots.  -> what was done (for the replay), [] if nothing could be"""
    def subtree(o):
        # (eContents walks a set of references: children are taken feature by feature, by name, for a reproducible order)
        out = [o]
        for f in sorted((f for f in o.eClass.eAllReferences() if f.containment), key=lambda f: f.name):
            v = o.eGet(f)
            for c in (list(v) if f.many else ([v] if v is not None else [])):
                out += subtree(c)
        return out
    done = []
    for _ in range(rng.randint(1, 3)):
        objs = [o for r in res.contents for o in subtree(r)]
        k = rng.random()
        if k < .45:
            cands = [(o, f) for o in objs for f in sorted(o.eClass.eAllReferences(), key=lambda f: f.name)
                     if f.containment and f.many and len(o.eGet(f)) >= 2]
            if cands:
                o, f = rng.choice(cands)
                coll = o.eGet(f)
                c = coll[0]
                coll.remove(c)
                coll.append(c)
                done.append(f'first child of {o.eClass.name}.{f.name} moved to the end')
        elif k < .8:
            kids = [c for c in objs if c.eContainer() is not None]
            rng.shuffle(kids)
            for c in kids[:4]:
                inside = subtree(c)
                slots = [(p, g) for p in objs if not any(p is x for x in inside)
                         for g in sorted(p.eClass.eAllReferences(), key=lambda f: f.name)
                         if g.containment and g.many and g.eOpposite is None and isinstance(c, g.eType.python_class)
                         and not (p is c.eContainer() and g is c.eContainmentFeature())]
                if slots:
                    p, g = rng.choice(slots)
                    p.eGet(g).insert(0, c)
                    done.append(f'a {c.eClass.name} moved to the front of {p.eClass.name}.{g.name}')
                    break
        elif len(res.contents) >= 2:
            r = res.contents[0]
            res.remove(r)
            res.append(r)
            done.append('first root moved to the end')
    return done


def empty_case(ctx, tmp, fmt):
    """the smallest model: a resource without any root is saved and loaded as such"""
    from pyecore.resources import ResourceSet, URI
    from pyecore.resources.json import JsonResource
    path = os.path.join(tmp, f'empty.{fmt}')
    ctx.evaluations += 1
    try:
        rs = ResourceSet()
        rs.resource_factory['json'] = lambda uri: JsonResource(uri)
        rs.create_resource(URI(path)).save()
        rs2 = ResourceSet()
        rs2.resource_factory['json'] = lambda uri: JsonResource(uri)
        n = len(rs2.get_resource(URI(path)).contents)
    except Exception as e:
        ctx.violate({'clause': 'roundtrip-raised', 'error': type(e).__name__, 'model': 'empty'},
                    f'saving / loading a {fmt} resource without roots raised {type(e).__name__}: {str(e)[:80]}', {'case': 'empty', 'format': fmt})
        return
    if n:
        ctx.violate({'clause': 'not-isomorphic', 'model': 'empty'}, f'a {fmt} resource without roots came back with {n} root(s)', {'case': 'empty', 'format': fmt})


def resave_case(ctx, tag, h, tmp, fmt):
    """save, restructure the model in memory, save the same resource again, load: the second document describes the model
    as it is now (nothing computed for the first save may be reused when it no longer holds)"""
    from pyecore.resources import ResourceSet, URI
    from pyecore.resources.json import JsonResource
    rng = common.sub_rng(ctx.seed, tag, 'resave', h)
    sp = models.gen_mmspec(rng, h)
    m = models.gen_model(rng, sp, nobj=rng.randint(4, 10), values='safe')
    use_uuid = rng.random() < .2
    rset = ResourceSet()
    rset.resource_factory['json'] = lambda uri: JsonResource(uri)
    path = os.path.join(tmp, f'resave.{fmt}')
    res = rset.create_resource(URI(path))
    res.use_uuid = use_uuid
    for r in m.roots:
        res.append(r)
    rep = {'case': h, 'format': fmt, 'uuid': use_uuid}
    try:
        res.save()
        done = restructure(rng, res)
        if not done:
            ctx.count('resave/nothing-to-move')
            return
        rep['moves'] = done
        ctx.evaluations += 1
        now = models.canon(list(res.contents))
        res.save()
        rset2 = ResourceSet()
        rset2.resource_factory['json'] = lambda uri: JsonResource(uri)
        rset2.metamodel_registry[m.pk.nsURI] = m.pk
        res2 = rset2.get_resource(URI(path))
        after = models.canon(res2.contents)
    except Exception as e:
        import traceback
        tb = [l for l in traceback.format_exc().strip().splitlines() if 'pyecore' in l]
        ctx.violate({'clause': 'resave-raised', 'error': type(e).__name__},
                    f'save / restructure / save / load raised {type(e).__name__}: {str(e)[:80]} at {tb[-1].strip() if tb else ""}', rep)
        return
    ctx.count('resave/' + fmt)
    ctx.nontriv(('resave', h))
    d = models.diff_canon(now, after)
    if d:
        ctx.violate({'clause': 'second-save-stale', 'format': fmt},
                    f'after {done}, the second save of the same {fmt} resource does not describe the model as it is: {d}', rep)


def enc(s):
    return '_' if s == '' else ','.join(str(ord(c)) for c in s)


LAYER_CHARS = ['a', 'b', ' ', '\t', '\n', '\r', '\u00a0', '\u2003', '\u3000', '\u0085', 'é', '<', '&', '"', '\U0001d518']


def layer_correspondence(ctx, tmp):
    """L2/L3 against the real save/load: which XML form a value takes, and what is read back"""
    from pyecore import ecore as E
    from pyecore.resources import ResourceSet, URI
    from pyecore.resources.xmi import XMIOptions
    from lxml import etree
    rng = common.sub_rng(ctx.seed, 'C08-layers')
    pk = E.EPackage('lay', 'http://verif/lay', 'lay')
    A = E.EClass('A')
    pk.eClassifiers.append(A)
    A.eStructuralFeatures.append(E.EAttribute('many', E.EString, upper=-1, unique=False))
    A.eStructuralFeatures.append(E.EAttribute('one', E.EString))
    A.eStructuralFeatures.append(E.EAttribute('oned', E.EString, default_value='d'))
    model_in, expect = [], []
    # L2: all lists of <= 2 strings of <= 2 characters over the palette (exhaustive), plus random longer ones
    strings = [''] + LAYER_CHARS + [a + b for a in LAYER_CHARS for b in LAYER_CHARS]
    lists = [[s_] for s_ in strings] + [[a, b] for a in strings[:16] for b in strings[:16]]
    for _ in range(200 if ctx.quick() else 5000):
        lists.append([''.join(rng.choice(LAYER_CHARS) for _ in range(rng.randint(0, 4))) for _ in range(rng.randint(1, 4))])
    path = os.path.join(tmp, 'layer.xmi')
    for vs in lists:
        a = A()
        a.many.extend(vs)
        rs = ResourceSet(); r = rs.create_resource(URI(path)); r.append(a)
        try:
            r.save()
        except ValueError:
            continue            # not XML-legal (control characters): outside the statement
        node = etree.parse(path).getroot()
        if 'many' in node.attrib:
            form = 'attr ' + enc(node.attrib['many'])
        else:
            form = 'elements ' + ' '.join(enc(c.text or '') for c in node if c.tag == 'many')
        try:
            rs2 = ResourceSet(); rs2.metamodel_registry[pk.nsURI] = pk
            back = list(rs2.get_resource(URI(path)).contents[0].many)
        except Exception as e:
            ctx.violate({'clause': 'many-attribute-values', 'error': type(e).__name__},
                        f'many-valued attribute {vs!r}: load raised {type(e).__name__}: {e}', {'kind': 'layer', 'values': vs})
            continue
        ctx.evaluations += 1
        ctx.count('layer/many-' + form.split()[0])
        model_in.append('many ' + ' '.join(enc(v) for v in vs)); expect.append(('L2 form', vs, form))
        if form.startswith('attr'):
            model_in.append('split ' + form.split(' ', 1)[1]); expect.append(('L2 split', vs, 'list ' + ' '.join(enc(v) for v in back)))
        if back != vs:
            ctx.violate({'clause': 'many-attribute-values'}, f'many-valued attribute {vs!r} reloads as {back!r}', {'kind': 'layer', 'values': vs})
    # L3: every (serialize defaults, default, value) over None / default / other
    for sd in (False, True):
        for (fname, dflt) in (('one', None), ('oned', 'd')):
            for v in (None, 'd', 'x', '', ' '):
                a = A()
                setattr(a, fname, v)
                rs = ResourceSet(); r = rs.create_resource(URI(path)); r.append(a)
                r.save(options={XMIOptions.SERIALIZE_DEFAULT_VALUES: sd})
                node = etree.parse(path).getroot()
                if fname in node.attrib:
                    form = 'attr ' + enc(node.attrib[fname])
                elif any(c.tag == fname for c in node):
                    form = 'nil'
                else:
                    form = 'absent'
                try:
                    rs2 = ResourceSet(); rs2.metamodel_registry[pk.nsURI] = pk
                    back = getattr(rs2.get_resource(URI(path)).contents[0], fname)
                except Exception as e:
                    ctx.violate({'clause': 'single-attribute-value', 'error': type(e).__name__},
                                f'{fname}={v!r}: load raised {type(e).__name__}: {e}', {'kind': 'layer', 'value': v})
                    continue
                ctx.evaluations += 1
                ctx.count('layer/one-' + form.split()[0])
                t = lambda x: 'N' if x is None else enc(x)
                model_in.append(f'one {1 if sd else 0} {t(dflt)} {t(v)}'); expect.append(('L3 form', (sd, dflt, v), form))
                if back != v:
                    ctx.violate({'clause': 'single-attribute-value'}, f'{fname}={v!r} (default {dflt!r}, serialize defaults {sd}) reloads as {back!r}',
                                {'kind': 'layer', 'value': v})
    out = common.run_driver('xmiv', model_in)
    for line, exp, got in zip(model_in, expect, out):
        what, arg, want = exp
        if got != want and len(ctx.divergences) < 20:
            ctx.diverge(f'{what} {arg!r}: model `{got[:120]}` vs implementation `{want[:120]}`', {'line': line})
    ctx.traces += len(model_in)



# ---------------------------------------------------------------------------------------------
# document layer: the whole save and the whole load, element by element, against Model/XmiDoc.lean

def mutate_doc(rng, data, classes):
    """one structural mutation of a saved document that keeps every attribute *value* as it was (value conversion is
    C17's business): drop an attribute or a child, duplicate or swap children, break a reference token, add an unknown
    attribute or child.  -> (kind, bytes) or None"""
    from lxml import etree
    root = etree.fromstring(data)
    elems = [e for e in root.iter() if isinstance(e.tag, str) and not e.tag.startswith('{http://www.omg.org/XMI}')]
    if not elems:
        return None
    feats = {}
    for c in classes:
        for f in c.eAllStructuralFeatures():
            feats[f.name] = f
    has_ids = any(k.endswith('}id') for e in elems for k in e.attrib) or any(getattr(f, 'iD', False) for f in feats.values() if f.is_attribute)
    kind = rng.choice(['drop-attr', 'drop-child', 'dup-child', 'swap-children', 'bad-ref', 'unknown-attr', 'unknown-child', 'empty-ref'])
    e = rng.choice(elems)
    # (the document model decodes each slot on its own: the opposite handshake of load, which would re-create a dropped
    #  end of a bidirectional reference from the other end, is the Store's business — bidirectional ends are left alone)
    plain = [k for k in e.attrib if not k.startswith('{') and (k not in feats or feats[k].is_attribute or feats[k].eOpposite is None)]
    kids = [c for c in e if isinstance(c.tag, str)]
    if kind in ('drop-child', 'dup-child', 'swap-children') and any(
            a in feats and not feats[a].is_attribute and feats[a].eOpposite is not None for x in root.iter() for a in x.attrib):
        # moving objects to other positions makes a positional token name another object: with a bidirectional
        # reference in the document the two ends then state different things and load's handshake merges them
        return None
    if kind == 'drop-attr' and plain:
        del e.attrib[rng.choice(plain)]
    elif kind == 'drop-child' and kids:
        e.remove(rng.choice(kids))
    elif kind == 'dup-child' and kids and not has_ids:
        import copy
        k = rng.choice(kids)
        if any(a in feats and not feats[a].is_attribute and feats[a].eOpposite is not None for x in k.iter() for a in x.attrib):
            return None       # a copy with bidirectional references would re-point their partners (the Store's handshake)
        e.insert(list(e).index(k) + 1, copy.deepcopy(k))
    elif kind == 'swap-children' and len(kids) > 1:
        i = rng.randrange(len(kids) - 1)
        a, b = kids[i], kids[i + 1]
        ia = list(e).index(a)
        e.remove(b)
        e.insert(ia, b)
    elif kind in ('bad-ref', 'empty-ref'):
        refs = [k for k in plain if k in feats and not feats[k].is_attribute]
        if not refs:
            return None
        k = rng.choice(refs)
        toks = e.attrib[k].split()
        if kind == 'empty-ref':
            e.attrib[k] = ''
        else:
            toks[rng.randrange(len(toks))] = rng.choice(['//@nope.0', '/99', '//@' + k + '.99', 'no-such-id'])
            e.attrib[k] = ' '.join(toks)
    elif kind == 'unknown-attr':
        e.attrib['zzzUnknown'] = '1'
    elif kind == 'unknown-child':
        if e.tag in feats and feats[e.tag].is_attribute:
            return None       # a child inside a text element is not looked at
        etree.SubElement(e, 'zzzUnknown')
    else:
        return None
    return kind, etree.tostring(root, xml_declaration=True, encoding='UTF-8')


def doc_layer(ctx, tmp):
    """every generated (metamodel, model, options): (1) the elements `save` wrote vs the model's `encodeDoc` of the same
    object forest; (2) the model's `decodeDoc` of those elements vs the normal form of what `load` built; (3) the same for
    structurally mutated documents, where load may raise (the model must then say `fail`)"""
    from pyecore.resources import ResourceSet, URI
    from pyecore.resources.xmi import XMIOptions
    from . import xdoc
    n = 150 if ctx.quick() else 3000
    lines, wants = [], []
    for h in range(n):
        rng = common.sub_rng(ctx.seed, 'C08', 'doc', h)
        sp = models.gen_mmspec(rng, h)
        m = models.gen_model(rng, sp, nobj=rng.randint(2, 9))
        classes = [m.classes[c['name']] for c in sp.classes]
        use_uuid, sd = rng.random() < .35, rng.random() < .4
        rep = {'case': h, 'layer': 'document', 'options': f'uuid={int(use_uuid)} defaults={int(sd)}'}
        rset = ResourceSet()
        path = os.path.join(tmp, 'doc.xmi')
        res = rset.create_resource(URI(path))
        res.use_uuid = use_uuid
        for r in m.roots:
            res.append(r)
        try:
            res.save(options={XMIOptions.SERIALIZE_DEFAULT_VALUES: sd})
        except Exception as e:
            ctx.violate({'clause': 'roundtrip-raised', 'error': type(e).__name__}, f'save raised {type(e).__name__}: {e}', rep)
            continue
        data = open(path, 'rb').read()
        forest = '(' + ' '.join(xdoc.snode(r, classes, m.roots) for r in m.roots) + ')'
        lines += xdoc.mm_lines(classes)
        wants += [None] * (len(classes) + 1)
        lines.append(f'enc {int(sd)} {int(use_uuid)} {forest}')
        wants.append((rep, 'save', xdoc.doc_sexp(data)[1:-1].strip()))
        variants = [('saved', data)]
        for _ in range(2):
            mu = mutate_doc(rng, data, classes)
            if mu:
                variants.append(mu)
        for kind, bytes_ in variants:
            with open(path, 'wb') as fh:
                fh.write(bytes_)
            rset2 = ResourceSet()
            rset2.metamodel_registry[m.pk.nsURI] = m.pk
            try:
                res2 = rset2.get_resource(URI(path))
                roots2 = list(res2.contents)
                nf = ' '.join(xdoc.normal_form(r, classes, roots2, res2.use_uuid) for r in roots2)
            except Exception:
                nf = 'fail'
            uu = int(b'{http://www.omg.org/XMI}id' in bytes_ or b'xmi:id' in bytes_) if kind != 'saved' else int(use_uuid)
            lines.append(f'dec {int(sd)} {uu} {xdoc.doc_sexp(bytes_)}')
            wants.append((dict(rep, document=kind), 'load', nf))
            ctx.count('doc/' + kind + ('/raises' if nf == 'fail' else ''))
        ctx.nontriv(('doc', h))
    outs = common.run_driver('xdoc', lines)
    nbad = 0
    for l, w, o in zip(lines, wants, outs):
        if w is None:
            continue
        ctx.evaluations += 1
        rep, what, want = w
        if o.strip() != want.strip():
            nbad += 1
            if nbad <= 20:
                i = next((k for k in range(min(len(o), len(want))) if o[k] != want[k]), min(len(o), len(want)))
                ctx.diverge(f'document layer, {what} ({rep.get("document", "saved")}): first difference at {i}: model `…{o[max(0, i - 80):i + 120]}` vs '
                            f'implementation `…{want[max(0, i - 80):i + 120]}`', rep)
    ctx.traces += len(lines)
    ctx.extra['document_layer_records'] = len([w for w in wants if w])


def fresh_set_case(ctx, prop, k, tmp, fmt):
    """"a fresh resource set" means that nothing of the writing one comes back: a model with references into a second
    file, both saved and the writing resource set still alive; the first file loaded in a fresh resource set and the
    references followed — every object reached belongs to a resource of the fresh set, and none is an object of the writer"""
    import os
    from pyecore import ecore as E
    from pyecore.resources import ResourceSet, URI
    from pyecore.resources.json import JsonResource
    rng = common.sub_rng(ctx.seed, prop, 'fresh-set', k)
    pk = E.EPackage('fs', f'http://verif/fs/{prop}/{k}', 'fs')
    N = E.EClass('N')
    pk.eClassifiers.append(N)
    N.eStructuralFeatures.extend([E.EAttribute('name', E.EString), E.EReference('kids', N, upper=-1, containment=True),
                                  E.EReference('one', N), E.EReference('lst', N, upper=-1, unique=False)])

    def rs():
        r = ResourceSet()
        r.resource_factory['json'] = lambda uri: JsonResource(uri)
        r.metamodel_registry[pk.nsURI] = pk
        return r
    writer = rs()
    broot = N(name='b')
    bs = [broot] + [N(name=f'b{i}') for i in range(rng.randint(1, 4))]
    broot.kids.extend(bs[1:])
    aroot = N(name='a')
    aroot.one = rng.choice(bs)
    aroot.lst.extend(rng.sample(bs, rng.randint(1, len(bs))))
    use_uuid = rng.random() < .4
    d = os.path.join(tmp, f'fs{prop}{k}')
    os.makedirs(d, exist_ok=True)
    rb = writer.create_resource(URI(os.path.join(d, f'b.{fmt}'))); rb.use_uuid = use_uuid; rb.append(broot)
    ra = writer.create_resource(URI(os.path.join(d, f'a.{fmt}'))); ra.use_uuid = use_uuid; ra.append(aroot)
    rb.save(); ra.save()
    ctx.evaluations += 1
    ctx.count(f'fresh-set/{fmt}/' + ('uuid' if use_uuid else 'fragment'))
    ctx.nontriv(('fresh-set', k))
    fresh = rs()
    try:
        la = fresh.get_resource(URI(os.path.join(d, f'a.{fmt}'))).contents[0]
        reached = [la.one] + list(la.lst)
        names = [x.name for x in reached]
        targets = [unproxy(x) for x in reached]
    except Exception as e:
        ctx.violate({'clause': 'roundtrip-raised', 'error': type(e).__name__, 'fresh_set': True},
                    f'two files loaded in a fresh resource set ({fmt}, uuid={use_uuid}): following a reference raised {type(e).__name__}: {e}',
                    {'fresh_set': k, 'format': fmt})
        return
    theirs = {id(x) for x in bs}
    bad = [n_ for n_, t in zip(names, targets) if t is None or id(t) in theirs or t.eResource is None
           or t.eResource.resource_set is not fresh]
    if bad:
        ctx.violate({'clause': 'not-isomorphic', 'fresh_set': True},
                    f'two files loaded in a fresh resource set ({fmt}, uuid={use_uuid}) while the writing one is alive: the references '
                    f'to {bad} reach objects that are not part of the fresh set (the writer\'s own objects, or objects in no resource of it)',
                    {'fresh_set': k, 'format': fmt})
    del writer


def several_packages_roundtrip(ctx, k, tmp, fmt='xmi'):
    """a model over two or three packages (an extension package, two versions of a metamodel) that may share one namespace
    prefix and class names: objects of subclasses sit in containments typed by a class of the first package (so their
    type is written explicitly): every object comes back with its own class"""
    import os
    from pyecore import ecore as E
    from pyecore.resources import ResourceSet, URI
    from pyecore.resources.xmi import XMIOptions
    rng = common.sub_rng(ctx.seed, 'C08', 'packages', k, fmt)
    npk = rng.choice([2, 3, 3])
    same_prefix = rng.random() < .7
    same_names = rng.random() < .6
    pks, classes = [], []
    for i in range(npk):
        pk = E.EPackage(f'lib{i}', f'http://verif/c08/lib{i}/{k}', 'lib' if same_prefix else f'l{i}')
        c = E.EClass('Item' if same_names else f'Item{i}')
        c.eStructuralFeatures.append(E.EAttribute('name', E.EString))
        pk.eClassifiers.append(c)
        pks.append(pk); classes.append(c)
    base = classes[0]
    # every class has a feature `kind` of its own — one name, another type in each package (text, enumeration, number)
    En = E.EEnum('Kind', literals=['PLAIN', 'FRAGILE'])
    pks[-1].eClassifiers.append(En)
    kinds = [(E.EString, ['s', 't']), (En, [En.getEEnumLiteral('FRAGILE')]), (E.EInt, [3, 4])]
    kind_vals = {}
    for i, c in enumerate(classes):
        if i == 0:
            continue        # (the base class has none: the subclasses' features do not shadow an inherited one)
        t, vs = kinds[(i - 1) % len(kinds)]     # (text first: what is remembered for the first `Item.kind` met must not serve the others)
        c.eStructuralFeatures.append(E.EAttribute('kind', t))
        kind_vals[i] = vs
    base.eStructuralFeatures.append(E.EReference('kids', base, upper=-1, containment=True))
    base.eStructuralFeatures.append(E.EReference('friend', base))
    for c in classes[1:]:
        c.eSuperTypes.append(base)
    root = base(name='root')
    objs = [root]
    for j in range(rng.randint(3, 7)):
        ci = rng.randrange(len(classes))
        o = classes[ci](name=f'n{j}')
        if ci in kind_vals and rng.random() < .8:
            o.kind = rng.choice(kind_vals[ci])
        rng.choice(objs).kids.append(o)
        objs.append(o)
    for o in objs:
        if rng.random() < .5:
            o.friend = rng.choice(objs)

    def rs():
        from pyecore.resources.json import JsonResource
        r = ResourceSet()
        r.resource_factory['json'] = lambda uri: JsonResource(uri)
        for pk in pks:
            r.metamodel_registry[pk.nsURI] = pk
        return r
    path = os.path.join(tmp, f'pkrt{k}.{fmt}')
    res = rs().create_resource(URI(path))
    res.use_uuid = rng.random() < .3
    res.append(root)
    opts = rng.choice([None, {XMIOptions.OPTION_USE_XMI_TYPE: True}, {XMIOptions.SERIALIZE_DEFAULT_VALUES: True}]) if fmt == 'xmi' else None
    ctx.evaluations += 1
    ctx.count('packages/' + ('shared-prefix' if same_prefix else 'own-prefixes') + ('/same-names' if same_names else ''))
    ctx.nontriv(('packages', k))

    def walk(o):
        out = [(o.name, classes.index(o.eClass) if o.eClass in classes else f'foreign {o.eClass.name}',
                o.friend.name if o.friend is not None else None,
                (lambda v: (type(v).__name__, str(v)))(getattr(o, 'kind', None)))]
        for c in o.kids:
            out += walk(c)
        return out
    before = walk(root)
    try:
        res.save(options=opts)
        back = rs().get_resource(URI(path)).contents[0]
        after = walk(back)
    except Exception as e:
        after = f'raised {type(e).__name__}: {str(e)[:80]}'
    if after != before:
        ctx.violate({'clause': 'not-isomorphic', 'packages': True, 'format': fmt},
                    f'{fmt} model over {npk} packages ({"one shared prefix" if same_prefix else "own prefixes"}, {"same class names" if same_names else "own class names"}) '
                    f'[options {opts}]: (name, class, friend, kind) in document order was {before}, reloaded {after}',
                    {'packages_case': k})


def repeats_case(ctx, tag, k, tmp, fmt):
    """features declared `unique=False` that hold a value more than once — a many-valued reference (no opposite) with
    repeated targets, a many-valued attribute with repeated values: order and repetitions come back as saved"""
    import os
    from pyecore import ecore as E
    from pyecore.resources import ResourceSet, URI
    from pyecore.resources.json import JsonResource
    rng = common.sub_rng(ctx.seed, tag, 'repeats', k, fmt)
    pk = E.EPackage('rp', f'http://verif/{tag}/rp{k}', 'rp')
    A = E.EClass('A')
    pk.eClassifiers.append(A)
    A.eStructuralFeatures.extend([E.EAttribute('name', E.EString), E.EReference('kids', A, upper=-1, containment=True),
                                  E.EReference('stops', A, upper=-1, unique=False, ordered=True),
                                  E.EAttribute('nums', E.EInt, upper=-1, unique=False), E.EAttribute('words', E.EString, upper=-1, unique=False)])
    root = A(name='r')
    kids = [A(name=f'k{i}') for i in range(rng.randint(2, 4))]
    root.kids.extend(kids)
    holder = rng.choice([root] + kids)
    stops = [rng.choice(kids) for _ in range(rng.randint(2, 6))]
    stops.append(stops[0])
    holder.stops.extend(stops)
    nums = [rng.randint(0, 2) for _ in range(rng.randint(2, 5))] + [1, 1]
    holder.nums.extend(nums)
    words = [rng.choice(['a', 'b', 'a b']) for _ in range(rng.randint(2, 4))] + ['a', 'a']
    holder.words.extend(words)

    def rs():
        r = ResourceSet()
        r.resource_factory['json'] = lambda uri: JsonResource(uri)
        r.metamodel_registry[pk.nsURI] = pk
        return r
    path = os.path.join(tmp, f'repeats{k}.{fmt}')
    res = rs().create_resource(URI(path))
    res.use_uuid = k % 3 == 2
    res.append(root)
    ctx.evaluations += 1
    ctx.count(f'repeats/{fmt}')
    ctx.nontriv(('repeats', fmt, k))
    want = ([s_.name for s_ in stops], nums, words)
    try:
        res.save()
        back = rs().get_resource(URI(path)).contents[0]
        h2 = back if holder is root else back.kids[kids.index(holder)]
        got = ([unproxy(s_).name for s_ in h2.stops], list(h2.nums), list(h2.words))
    except Exception as e:
        got = f'raised {type(e).__name__}: {str(e)[:80]}'
    if got != want:
        ctx.violate({'clause': 'not-isomorphic', 'repeats': True, 'format': fmt},
                    f'{fmt}: non-unique features holding repeats (targets, ints, strings) were {want}, reloaded {got}', {'repeats_case': k, 'format': fmt})


FEATURE_NAMES = ['type', 'nil', 'version', 'id', 'idref', 'label', 'schemaLocation', 'eClass_', 'ref']      # (names starting with xml are reserved by XML itself)


def named_features_case(ctx, tag, k, tmp, fmt):
    """features whose names are also words of the document formats (`type`, `nil`, `version`, `id`, `schemaLocation`, ...): an
    attribute and a plain reference of such a name, on the root and on nested objects written with an explicit type (an
    instance of a subclass under a containment typed by the abstract superclass) and without one: values and targets come
    back as saved"""
    import os
    from pyecore import ecore as E
    from pyecore.resources import ResourceSet, URI
    from pyecore.resources.json import JsonResource
    rng = common.sub_rng(ctx.seed, tag, 'named-features', k, fmt)
    an, rn = rng.sample(FEATURE_NAMES, 2)
    pk = E.EPackage('nf', f'http://verif/{tag}/nf{k}', 'nf')
    Base = E.EClass('Base', abstract=True)
    Sub, Other, T = E.EClass('Sub', superclass=(Base,)), E.EClass('Other', superclass=(Base,)), E.EClass('T')
    pk.eClassifiers.extend([Base, Sub, Other, T])
    Base.eStructuralFeatures.extend([E.EAttribute('name', E.EString), E.EReference('items', Base, upper=-1, containment=True),
                                     E.EReference('exact', Sub, containment=True), E.EReference('targets', T, upper=-1, containment=True)])
    where = rng.choice([Base, Sub])
    where.eStructuralFeatures.extend([E.EAttribute(an, E.EString), E.EReference(rn, T, upper=rng.choice([1, -1]))])
    root = Sub(name='root')
    ts = [T() for _ in range(3)]
    root.targets.extend(ts)
    objs = [root]
    for i in range(rng.randint(1, 3)):
        o = Sub(name=f's{i}')
        rng.choice(objs).items.append(o)
        objs.append(o)
    ex = Sub(name='exact')
    rng.choice(objs).exact = ex
    objs.append(ex)
    root.items.append(Other(name='other'))
    want = {}
    for o in objs:
        o.eSet(an, rng.choice(['v', 'nf:Sub', 'true', '']))
        t = rng.sample(ts, rng.randint(1, 2))
        if where.findEStructuralFeature(rn).many:
            o.eGet(rn).extend(t)
        else:
            o.eSet(rn, t[0]); t = t[:1]
        want[o.name] = (o.eGet(an), [ts.index(x) for x in t])

    def rs():
        r = ResourceSet()
        r.resource_factory['json'] = lambda uri: JsonResource(uri)
        r.metamodel_registry[pk.nsURI] = pk
        return r
    path = os.path.join(tmp, f'named{k}.{fmt}')
    res = rs().create_resource(URI(path))
    res.use_uuid = k % 4 == 3
    res.append(root)
    ctx.evaluations += 1
    ctx.count(f'named-features/{fmt}/{an}+{rn}')
    ctx.nontriv(('named-features', fmt, k))
    try:
        res.save(options=None if k % 2 else ({} if fmt == 'json' else {__import__('pyecore.resources.xmi', fromlist=['XMIOptions']).XMIOptions.OPTION_USE_XMI_TYPE: True}))
        back = rs().get_resource(URI(path)).contents[0]
        bts = list(back.targets)
        got = {}
        for o in [back] + list(back.eAllContents()):
            if isinstance(o, Sub) :
                v = o.eGet(rn)
                got[o.name] = (o.eGet(an), [next(i for i, x in enumerate(bts) if x is unproxy(y)) for y in (v if hasattr(v, '__iter__') else ([v] if v is not None else []))])
    except Exception as e:
        got = f'raised {type(e).__name__}: {str(e)[:80]}'
    if got != want:
        ctx.violate({'clause': 'not-isomorphic', 'named_features': True, 'format': fmt},
                    f'{fmt}: an attribute named `{an}` and a reference named `{rn}` (declared on {where.name}) held {want}, reloaded {got}',
                    {'named_features_case': k, 'format': fmt})


def run(ctx):
    common.use_repo()
    n = 300 if ctx.quick() else 6000
    ctx.rule = (f'{n} generated (metamodel, model) pairs: 3-6 classes with inheritance/abstract, enums, attributes over 14 built-in '
                'data types (single/many, unique or not, id attributes), containment single/many with/without parent opposite, plain '
                'references, opposite pairs; 2-12 objects in a forest with 1+ roots; attribute values from boundary palettes (empty, '
                'whitespace, XML specials, non-BMP, None vs default, touched-but-empty collections); options uuid x serialize-defaults x '
                'xmi:type; oracle: isomorphism of the canonical dump (positions, classes, typed attribute values in order, reference '
                'targets in order) + C01-C03 on the loaded model. non-trivial & distinct = cases that saved and loaded')
    tmp = tempfile.mkdtemp(prefix='verif_c08_')
    try:
        for h in range(n):
            run_case(ctx, h, tmp, 10 if ctx.quick() else 25)
        layer_correspondence(ctx, tmp)
        doc_layer(ctx, tmp)
        empty_case(ctx, tmp, 'xmi')
        for k in range(20 if ctx.quick() else 300):
            fresh_set_case(ctx, 'C08', k, tmp, 'xmi')
        for k in range(30 if ctx.quick() else 500):
            several_packages_roundtrip(ctx, k, tmp)
            repeats_case(ctx, 'C08', k, tmp, 'xmi')
            named_features_case(ctx, 'C08', k, tmp, 'xmi')
        for h in range(80 if ctx.quick() else 1500):
            resave_case(ctx, 'C08', h, tmp, 'xmi')
    finally:
        shutil.rmtree(tmp, ignore_errors=True)


def search(ctx):
    pass


def replay(ctx, data):
    common.use_repo()
    tmp = tempfile.mkdtemp(prefix='verif_c08_')
    c2 = common.Ctx('C08', data['tier'], data['seed'])
    try:
        run_case(c2, data['replay']['case'], tmp, 10 if data['tier'] == 'quick' else 25)
    finally:
        shutil.rmtree(tmp, ignore_errors=True)
    for v in c2.violations:
        print('  ', v['what'])
    return 1 if c2.violations else 0
