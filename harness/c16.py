"""C16 — save() only observes the model and never destroys the previous file (DESIGN.md section 4)."""
import os
import shutil
import tempfile
from . import common, models


def extract(ctx):
    from . import extract as ex
    xs, js, gs, changed = ex.gen_skeletons()
    ctx.extra['xmi_save_skeleton'] = xs
    ctx.extra['json_save_skeleton'] = js
    ctx.extra['skeletons_regenerated'] = changed
    ctx.table_obligations = 2       # C16_xmi_builds_first, C16_json_builds_first over the regenerated skeletons


class BadStr(str):
    """a legal EString value whose text conversion raises"""
    def __str__(self):
        raise RuntimeError('unserializable value')


def observable(m):
    """everything a caller can observe of the model: canonical dump + eIsSet of every feature + ownership"""
    out = [models.canon(m.roots)]
    for o in m.objs:
        out.append(sorted(f.name for f in o.eClass.eAllStructuralFeatures() if o.eIsSet(f)))
        c = o.eContainer()
        out.append((None if c is None else id(c), o._eresource is not None))
    return out


def resource_for(m, tmp, fmt, use_uuid):
    from pyecore.resources import ResourceSet, URI
    rset = ResourceSet()
    path = os.path.join(tmp, f'm.{fmt}')
    res = rset.create_resource(URI(path))
    res.use_uuid = use_uuid
    for r in m.roots:
        res.append(r)
    return res, path


def run_case(ctx, h, tmp):
    from pyecore import ecore as E
    from pyecore.resources.xmi import XMIOptions
    from pyecore.resources.json import JsonOptions
    rng = common.sub_rng(ctx.seed, 'C16', h)
    sp = models.gen_mmspec(rng, h)
    fmt = 'xmi' if h % 2 == 0 else 'json'
    m = models.gen_model(rng, sp, nobj=rng.randint(2, 8), values='safe' if fmt == 'json' else 'boundary')
    use_uuid, sd = rng.random() < .3, rng.random() < .4
    opts = ({XMIOptions.SERIALIZE_DEFAULT_VALUES: sd} if fmt == 'xmi' else {JsonOptions.SERIALIZE_DEFAULT_VALUES: sd})
    own_encoder = fmt == 'json' and rng.random() < .5
    if own_encoder:
        import json as _json

        class Sorted(_json.JSONEncoder):            # an encoder of the caller's: keys in sorted order
            def __init__(self, **kw):
                kw['sort_keys'] = True
                super().__init__(**kw)
        opts[JsonOptions.ENCODER] = Sorted
        ctx.count('json/own-encoder')
    res, path = resource_for(m, tmp, fmt, use_uuid)
    label = f'{fmt} uuid={int(use_uuid)} defaults={int(sd)}' + (' encoder=own' if own_encoder else '')
    ctx.count('format/' + fmt)
    # ---- purity and determinism --------------------------------------------------------------------------
    before = observable(m)
    ok = True
    try:
        # "twice in a row" is the same call twice: every other case hands the very same options object to both
        shared = dict(opts)
        res.save(options=shared if h % 4 < 2 else dict(opts))
        b1 = open(path, 'rb').read()
        res.save(options=shared if h % 4 < 2 else dict(opts))
        b2 = open(path, 'rb').read()
    except Exception as e:
        ok = False      # whether this model can be written in this format is C08/C09's business
        ctx.count('save-raised/' + fmt)
    ctx.evaluations += 1
    if ok:
        ctx.nontriv((h, 'pure'))
        if observable(m) != before:
            ctx.violate({'clause': 'save-changes-model', 'format': fmt}, f'save() changed an observable property of the model [{label}]',
                        {'case': h, 'format': fmt})
        if b1 != b2:
            ctx.violate({'clause': 'not-deterministic', 'format': fmt}, f'two consecutive saves differ [{label}]', {'case': h, 'format': fmt})
        elif h % 3 == 0:
            # the same document written somewhere else, through a URI object the caller keeps: twice, the same bytes,
            # and they are there when save() returns
            from pyecore.resources import URI
            other = URI(path + '.copy')
            try:
                res.save(output=other, options=dict(opts))
                c1 = open(path + '.copy', 'rb').read()
                res.save(output=other, options=dict(opts))
                c2 = open(path + '.copy', 'rb').read()
            except Exception as e:
                c1 = c2 = f'raised {type(e).__name__}'.encode()
            ctx.evaluations += 1
            ctx.count('save-to-output-uri/' + fmt)
            if c1 != b1 or c2 != b1:
                ctx.violate({'clause': 'not-deterministic', 'format': fmt, 'output': 'uri-object'},
                            f'save(output=<URI object>) [{label}]: after the first call the target holds {len(c1)} bytes, after the '
                            f'second {len(c2)}; a save to the resource\'s own URI writes {len(b1)}', {'case': h, 'format': fmt})
    # ---- every position at which an unserializable element can be planted ---------------------------------
    previous = b'PREVIOUS CONTENT OF THE TARGET\n'
    positions = []
    for oi, o in enumerate(m.objs):
        for f in models.feats_of(sp, o._vname):
            if f['kind'] == 'attr' and f['type'] == 'EString' and not f['id']:
                positions.append(('attr', oi, f))
            if f['kind'] == 'ref' and f['cont'] and f['many']:
                positions.append(('orphan-class', oi, f))
    if fmt == 'json' and m.objs:
        # a value that reaches the JSON encoder as it is (a data type whose to_string hands the value on) and that the
        # encoder refuses: the failure comes after the model has been turned into a dict
        raw = E.EDataType('Raw', eType=complex, to_string=lambda v: v, from_string=lambda s_: complex(s_))
        for oi in sorted({0, len(m.objs) - 1}):
            cls = m.objs[oi].eClass
            if cls.findEStructuralFeature('verif_raw') is None:
                cls.eStructuralFeatures.append(E.EAttribute('verif_raw', raw))
            positions.append(('json-encoder', oi, {'name': 'verif_raw'}))
    for (kind, oi, f) in positions:
        o = m.objs[oi]
        undo = None
        try:
            if kind == 'json-encoder':
                o.verif_raw = complex(1, 2)
                undo = lambda o=o: delattr(o, 'verif_raw')
            elif kind == 'attr':
                if fmt == 'json':
                    continue        # json.dumps writes any str subclass; the JSON fault is the orphan class below
                if f['many']:
                    c = getattr(o, f['name']); c.append(BadStr('x')); undo = lambda c=c: c.pop()
                else:
                    old = getattr(o, f['name']); setattr(o, f['name'], BadStr('x'))
                    undo = lambda o=o, n=f['name'], old=old: setattr(o, n, old)
            else:
                orphan = E.EClass('Orphan', superclass=(m.classes[f['type']],))    # a class that is in no package
                if orphan.abstract or m.classes[f['type']].abstract:
                    pass
                inst = orphan()
                c = getattr(o, f['name']); c.append(inst); undo = lambda c=c, inst=inst: c.remove(inst)
        except Exception:
            continue
        with open(path, 'wb') as fh:
            fh.write(previous)
        raised = None
        try:
            res.save(options=dict(opts))
        except Exception as e:
            raised = type(e).__name__
        now = open(path, 'rb').read() if os.path.exists(path) else None
        ctx.evaluations += 1
        ctx.count(f'fault/{kind}/' + ('raised' if raised else 'saved'))
        if raised:
            ctx.nontriv((h, kind, oi, f['name']))
            if now != previous:
                ctx.violate({'clause': 'previous-file-destroyed', 'format': fmt, 'fault': kind},
                            f'save() raised {raised} and the previous content of the target is gone ({len(now or b"")} bytes left) [{label}]',
                            {'case': h, 'format': fmt, 'fault': kind, 'object': oi, 'feature': f['name']})
        if undo:
            undo()
        # determinism holds from every history: a save that failed must not leave anything behind that shows in later saves
        if raised and ok:
            try:
                res.save(options=dict(opts))
                a1 = open(path, 'rb').read()
                res.save(options=dict(opts))
                a2 = open(path, 'rb').read()
                ctx.evaluations += 1
                ctx.count('history/after-failed-save')
                if a1 != a2:
                    ctx.violate({'clause': 'not-deterministic', 'format': fmt, 'history': 'after-failed-save'},
                                f'after a failed save ({kind}) two consecutive saves differ [{label}]',
                                {'case': h, 'format': fmt, 'fault': kind, 'object': oi, 'feature': f['name']})
            except Exception:
                pass
    # ... and from a resource that was loaded: a document written by another tool declares prefixes save() would not
    if ok and fmt == 'xmi':
        try:
            from pyecore.resources import ResourceSet, URI
            doc = b1.replace(b'xmlns:xmi=', b'xmlns:xsi="http://www.w3.org/2001/XMLSchema-instance" '
                             b'xmlns:ecore="http://www.eclipse.org/emf/2002/Ecore" xmlns:xmi=', 1)
            p2 = os.path.join(tmp, 'loaded.xmi')
            with open(p2, 'wb') as fh:
                fh.write(doc)
            rset2 = ResourceSet()
            rset2.metamodel_registry[m.pk.nsURI] = m.pk
            r2 = rset2.get_resource(URI(p2))
            r2.save(options=dict(opts))
            c1 = open(p2, 'rb').read()
            r2.save(options=dict(opts))
            c2 = open(p2, 'rb').read()
            ctx.evaluations += 1
            ctx.count('history/after-load')
            if c1 != c2:
                ctx.violate({'clause': 'not-deterministic', 'format': fmt, 'history': 'after-load'},
                            f'a loaded resource saved twice in a row gives different bytes [{label}]', {'case': h, 'format': fmt})
        except Exception as e:
            ctx.count('history/after-load-raised/' + type(e).__name__)
    if h < 2:
        ctx.sample({'case': h, 'format': fmt, 'options': label, 'objects': len(m.objs), 'fault_positions': len(positions)})


def several_packages_case(ctx, k, tmp):
    """models whose classes come from several packages — an extension package, two versions of a metamodel — that may share
    one namespace prefix: two (three) consecutive saves write the same bytes, under every option set"""
    import os
    from pyecore import ecore as E
    from pyecore.resources import ResourceSet, URI
    from pyecore.resources.xmi import XMIOptions
    from pyecore.resources.json import JsonResource, JsonOptions
    rng = common.sub_rng(ctx.seed, 'C16', 'packages', k)
    npk = rng.choice([2, 2, 3])
    same_prefix = rng.random() < .7
    pks, classes = [], []
    for i in range(npk):
        pk = E.EPackage(f'model{i}', f'http://verif/c16/v{i}', 'model' if same_prefix else f'm{i}')
        c = E.EClass(f'Node{i}' if rng.random() < .5 else 'Node')
        c.eStructuralFeatures.append(E.EAttribute('name', E.EString))
        pk.eClassifiers.append(c)
        pks.append(pk); classes.append(c)
    base = classes[0]
    base.eStructuralFeatures.append(E.EReference('kids', base, upper=-1, containment=True))
    base.eStructuralFeatures.append(E.EReference('friend', base))
    for c in classes[1:]:
        c.eSuperTypes.append(base)
    root = base(name='root')
    objs = [root]
    for j in range(rng.randint(2, 6)):
        o = rng.choice(classes)(name=f'n{j}')
        rng.choice(objs).kids.append(o)
        objs.append(o)
    for o in objs:
        if rng.random() < .5:
            o.friend = rng.choice(objs)
    for fmt in ('xmi', 'json'):
        rset = ResourceSet()
        rset.resource_factory['json'] = lambda uri: JsonResource(uri)
        path = os.path.join(tmp, f'pk{k}.{fmt}')
        res = rset.create_resource(URI(path))
        res.use_uuid = rng.random() < .3
        res.append(root)
        optsets = [None, {XMIOptions.SERIALIZE_DEFAULT_VALUES: True}, {XMIOptions.OPTION_USE_XMI_TYPE: True}] if fmt == 'xmi' \
            else [None, {JsonOptions.SERIALIZE_DEFAULT_VALUES: True}]
        opts = rng.choice(optsets)
        try:
            outs = []
            for _ in range(3):
                res.save(options=opts)
                outs.append(open(path, 'rb').read())
        except Exception:
            ctx.count('packages/save-raised/' + fmt)
            res.remove(root)
            continue
        res.remove(root)
        ctx.evaluations += 1
        ctx.count(f'packages/{fmt}/' + ('shared-prefix' if same_prefix else 'own-prefixes'))
        ctx.nontriv(('packages', k, fmt))
        if not (outs[0] == outs[1] == outs[2]):
            ctx.violate({'clause': 'not-deterministic', 'format': fmt},
                        f'consecutive saves of a model over {npk} packages ({"one shared prefix" if same_prefix else "own prefixes"}) differ [{fmt}, options {opts}]',
                        {'case': k, 'format': fmt, 'packages': True})
            return


def cross_uuid_case(ctx, k, tmp):
    """two resources built in memory, the referred one addressing its objects by uuid (none handed out yet): the referring
    one is saved, then the other one, then the referring one again — nothing was edited, the two documents of the referring
    resource are the same bytes (XMI and JSON; single and many-valued references)"""
    import os
    from pyecore import ecore as E
    from pyecore.resources import ResourceSet, URI
    from pyecore.resources.json import JsonResource
    rng = common.sub_rng(ctx.seed, 'C16', 'cross-uuid', k)
    fmt = 'xmi' if k % 2 == 0 else 'json'
    pk = E.EPackage('cu', f'http://verif/c16/cu{k}', 'cu')
    A = E.EClass('A')
    pk.eClassifiers.append(A)
    A.eStructuralFeatures.extend([E.EAttribute('name', E.EString), E.EReference('kids', A, upper=-1, containment=True),
                                  E.EReference('one', A), E.EReference('many', A, upper=-1)])
    d = os.path.join(tmp, f'cu{k}')
    os.makedirs(d, exist_ok=True)
    rs = ResourceSet()
    rs.resource_factory['json'] = lambda uri: JsonResource(uri)
    pm, pp = os.path.join(d, f'main.{fmt}'), os.path.join(d, f'parts.{fmt}')
    rm, rp = rs.create_resource(URI(pm)), rs.create_resource(URI(pp))
    rp.use_uuid = True
    rm.use_uuid = rng.random() < .3
    main, parts = A(name='main'), A(name='parts')
    parts.kids.extend([A(name=f'p{i}') for i in range(rng.randint(2, 4))])
    rm.append(main); rp.append(parts)
    main.one = rng.choice(list(parts.kids))
    main.many.extend(rng.sample(list(parts.kids), rng.randint(1, len(parts.kids))) + [parts])
    ctx.evaluations += 1
    ctx.count('cross-uuid/' + fmt)
    ctx.nontriv(('cross-uuid', k))
    try:
        rm.save(); first = open(pm, 'rb').read()
        rp.save()
        rm.save(); second = open(pm, 'rb').read()
    except Exception as e:
        ctx.violate({'clause': 'not-deterministic', 'format': fmt, 'history': 'cross-uuid'},
                    f'saving a resource that refers into a uuid resource raised {type(e).__name__}: {e}', {'case': k, 'format': fmt, 'kind': 'cross-uuid'})
        return
    if first != second:
        ctx.violate({'clause': 'not-deterministic', 'format': fmt, 'history': 'cross-uuid'},
                    f'{fmt}: a resource referring into a resource that uses uuids was saved, the other resource was saved, the first was saved '
                    f'again (no edit): {len(first)} bytes, then {len(second)} different ones', {'case': k, 'format': fmt, 'kind': 'cross-uuid'})


def loaded_unresolved_case(ctx, k, tmp):
    """a resource *loaded* from a document whose references have not been followed yet, saved twice in a row (nothing edited,
    nothing read in between): the same bytes.  Two shapes: an .ecore whose features are typed by Ecore's own data types and
    by classes of a registered package (references to elements of a registered metamodel), and an instance document whose
    hrefs to a second resource are spelt otherwise than pyecore would spell them (`./parts.xmi#…`)."""
    import os
    from pyecore import ecore as E
    from pyecore.resources import ResourceSet, URI
    from pyecore.resources.json import JsonResource
    rng = common.sub_rng(ctx.seed, 'C16', 'loaded-unresolved', k)
    shape = 'ecore' if k % 3 == 0 else 'instances'
    fmt = 'xmi' if shape == 'ecore' or k % 2 == 0 else 'json'
    d = os.path.join(tmp, f'lu{k}')
    os.makedirs(d, exist_ok=True)

    def rset():
        rs = ResourceSet()
        rs.resource_factory['json'] = lambda uri: JsonResource(uri)
        return rs
    try:
        if shape == 'ecore':
            pk = E.EPackage('lu', f'http://verif/c16/lu{k}', 'lu')
            A, B = E.EClass('A'), E.EClass('B')
            pk.eClassifiers.extend([A, B])
            types = [E.EString, E.EInt, E.EBoolean, E.EDouble, E.EDate, E.EJavaObject]
            for i in range(rng.randint(1, 4)):
                A.eStructuralFeatures.append(E.EAttribute(f'a{i}', rng.choice(types), upper=rng.choice([1, 1, -1])))
            A.eStructuralFeatures.append(E.EReference('b', B, upper=rng.choice([1, -1])))
            if rng.random() < .5:
                B.eStructuralFeatures.append(E.EReference('meta', E.EClass))          # typed by a class of Ecore itself
            if rng.random() < .5:
                B.eSuperTypes.append(A)
            src = os.path.join(d, 'lu.ecore')
            r = rset().create_resource(URI(src)); r.append(pk); r.save()
            rs = rset()
            loaded = rs.get_resource(URI(src))
        else:
            pk = E.EPackage('li', f'http://verif/c16/li{k}', 'li')
            A = E.EClass('A')
            pk.eClassifiers.append(A)
            A.eStructuralFeatures.extend([E.EAttribute('name', E.EString), E.EReference('kids', A, upper=-1, containment=True),
                                          E.EReference('one', A), E.EReference('many', A, upper=-1, unique=rng.random() < .5)])
            rs0 = rset()
            pm, pp = os.path.join(d, f'main.{fmt}'), os.path.join(d, f'parts.{fmt}')
            rm, rp = rs0.create_resource(URI(pm)), rs0.create_resource(URI(pp))
            main, parts = A(name='main'), A(name='parts')
            parts.kids.extend([A(name=f'p{i}') for i in range(rng.randint(2, 4))])
            rm.append(main); rp.append(parts)
            main.one = rng.choice(list(parts.kids))
            main.many.extend(rng.sample(list(parts.kids), rng.randint(1, len(parts.kids))))
            rp.save(); rm.save()
            if rng.random() < .7:                                   # another spelling of the same relative path
                text = open(pm, encoding='utf-8').read()
                text = text.replace(f'parts.{fmt}#', f'./parts.{fmt}#')
                open(pm, 'w', encoding='utf-8').write(text)
            rs = rset()
            rs.metamodel_registry[pk.nsURI] = pk
            loaded = rs.get_resource(URI(pm))
    except Exception as e:
        ctx.count(f'loaded-unresolved/setup-raised/{type(e).__name__}')
        return
    ctx.evaluations += 1
    ctx.count(f'loaded-unresolved/{shape}/{fmt}')
    ctx.nontriv(('loaded-unresolved', k))
    ext = 'ecore' if shape == 'ecore' else fmt
    o1, o2, o3 = (os.path.join(d, f'out{i}.{ext}') for i in (1, 2, 3))
    info = {'case': k, 'format': fmt, 'kind': 'loaded-unresolved', 'shape': shape}
    try:
        loaded.save(output=URI(o1)); loaded.save(output=URI(o2)); loaded.save(output=URI(o3))
    except Exception as e:
        ctx.violate({'clause': 'not-deterministic', 'format': fmt, 'history': 'loaded-unresolved'},
                    f'saving a freshly loaded resource ({shape}) raised {type(e).__name__}: {e}', info)
        return
    b1, b2, b3 = (open(o, 'rb').read() for o in (o1, o2, o3))
    if not (b1 == b2 == b3):
        which = 'first and second' if b1 != b2 else 'second and third'
        ctx.violate({'clause': 'not-deterministic', 'format': fmt, 'history': 'loaded-unresolved'},
                    f'{fmt}: a resource loaded from a document ({shape}; its references not followed yet) was saved three times in a row, '
                    f'nothing edited in between: the {which} documents differ', info)


def run(ctx):
    common.use_repo()
    n = 80 if ctx.quick() else 2000
    ctx.rule = (f'{n} generated models x XMI/JSON x uuid x serialize-defaults: observable model (canonical dump, eIsSet, ownership) '
                'before/after save, bytes of two consecutive saves (on the fresh model, after every failed save, and on a resource loaded from a document that declares extra namespace prefixes); a freshly loaded resource whose references were not followed yet (.ecore typed by registered metamodels, instance documents with other spellings of an href) saved three times; then every position at which an unserializable element can be '
                'planted (an EString value whose conversion raises at each string attribute slot, an instance of a class that is in no '
                'package in each many-valued containment) with a pre-existing file at the target. non-trivial & distinct = saves that '
                'completed + faulted saves that raised')
    tmp = tempfile.mkdtemp(prefix='verif_c16_')
    try:
        for h in range(n):
            run_case(ctx, h, tmp)
        for k in range(n // 2):
            several_packages_case(ctx, k, tmp)
            cross_uuid_case(ctx, k, tmp)
            loaded_unresolved_case(ctx, k, tmp)
    finally:
        shutil.rmtree(tmp, ignore_errors=True)
    ctx.assumptions += ['OS-level write failures (disk full) are outside the statement ("cannot be serialized")',
                        'uuid mode assigns _internal_id on first save: internal, not an observable property of the model',
                        'annotation details with non-string values only occur in .ecore documents and are planted by C10\'s generator']


def search(ctx):
    pass


def replay(ctx, data):
    common.use_repo()
    tmp = tempfile.mkdtemp(prefix='verif_c16_')
    c2 = common.Ctx('C16', data['tier'], data['seed'])
    try:
        r = data['replay']
        kind = r.get('kind') or ('packages' if r.get('packages') else None)
        {'cross-uuid': cross_uuid_case, 'loaded-unresolved': loaded_unresolved_case,
         'packages': several_packages_case}.get(kind, run_case)(c2, r['case'], tmp)
    finally:
        shutil.rmtree(tmp, ignore_errors=True)
    for v in c2.violations[:5]:
        print('  ', v['what'])
    return 1 if c2.violations else 0
