"""C12 — dynamic metaclasses and their instances follow metamodel edits (DESIGN.md section 4)."""
import itertools
import keyword
from . import common


def supers_of(c):
    out = []
    for s in c.eSuperTypes:
        if s not in out:
            out.append(s)
        for t in supers_of(s):
            if t not in out:
                out.append(t)
    return out


def declared_features(c):
    out = list(c.eStructuralFeatures)
    for s in supers_of(c):
        for f in s.eStructuralFeatures:
            if f not in out:
                out.append(f)
    return out


TYPE_DEFAULT = {'EString': None, 'EInt': 0, 'EBoolean': False, 'EIntegerObject': None, 'EBooleanObject': None,
                'EDoubleObject': None, 'EDouble': 0.0}


def observe(classes, instances, removed_names, E, EcoreUtils, declared=None):
    """-> first problem or None.  instances: list of (object, class); declared: feature name -> default as written"""
    mutable_seen = {}
    for (o, c) in instances:
        feats = declared_features(c)
        names = {f.name for f in feats}
        listed = set(dir(o))
        for f in feats:
            if f.name not in listed:
                return ('dir-misses-feature', f'dir(instance of {c.name}) lacks {f.name}')
            try:
                v = getattr(o, f.name)
            except Exception as e:
                return ('feature-not-readable', f'{c.name} instance .{f.name}: {type(e).__name__}: {e}')
            if f.many:
                if not hasattr(v, 'append'):
                    return ('multiplicity', f'{c.name} instance .{f.name} is many-valued but reads {type(v).__name__}')
            elif hasattr(v, '_update_opposite') or type(v).__name__ in ('EValue',):
                return ('stale-holder', f'{c.name} instance .{f.name} reads a raw {type(v).__name__}')
            if not f.many and isinstance(f, E.EAttribute) and not o.eIsSet(f):
                want = f.get_default_value()
                if declared is not None and f.name in declared:
                    # the default as it was declared (explicit, else the type's), not what the library now says it is
                    want = declared[f.name]
                if v != want or type(v) is not type(want):
                    return ('default', f'{c.name} instance .{f.name} reads {v!r}, default {want!r}')
                if isinstance(v, (dict, list)):
                    # a default that can be changed in place is every instance's own
                    other = mutable_seen.setdefault((f.name, id(v)), o)
                    if other is not o:
                        return ('default-shared', f'two instances read the very same {type(v).__name__} object as the default of .{f.name}')
        for n in removed_names:
            if n in names:
                continue
            if n in listed:
                return ('dir-lists-removed', f'dir(instance of {c.name}) still lists removed {n}')
            try:
                v = getattr(o, n)
                return ('removed-still-readable', f'{c.name} instance .{n} (not a feature of the class any more) reads {type(v).__name__}')
            except AttributeError:
                pass
        for k in classes:
            want = (k is c) or (k in supers_of(c))
            if isinstance(o, k) != want:
                return ('isinstance', f'isinstance(instance of {c.name}, {k.name}) is {isinstance(o, k)}, supertypes say {want}')
            if EcoreUtils.isinstance(o, k) != want:
                return ('EcoreUtils.isinstance', f'EcoreUtils.isinstance(instance of {c.name}, {k.name}) is {not want}')
    return None


def real_row(classes, instances, names):
    """the record `Cls.Proto.observe` prints, computed on the real objects"""
    rows = []
    for i, (o, c) in enumerate(instances):
        g = []
        for n in names:
            try:
                getattr(o, n)
            except AttributeError:
                g.append('N'); continue
            except NotImplementedError:
                pass
            g.append('D' if any(n in k.__dict__ for k in type(o).__mro__) else 'R')
        inst = ''.join('1' if isinstance(o, k) else '0' for k in classes)
        rows.append(f"i{i}:{''.join(g)}:{inst}")
    return ' '.join(rows)


def run_case(ctx, h, nedits, lines=None, reals=None):
    from pyecore import ecore as E
    from pyecore.valuecontainer import EcoreUtils
    lines = [] if lines is None else lines
    reals = [] if reals is None else reals
    lines.append('reset'); reals.append((h, 'ok', 'reset'))
    names = []

    def emit(line, compare=True):
        lines.append(line)
        reals.append((h, real_row(classes, instances, names) if compare else None, line))
    rng = common.sub_rng(ctx.seed, 'C12', h)
    n = rng.randint(2, 4)
    classes = [E.EClass(f'K{i}') for i in range(n)]
    instances = []
    for _ in classes:
        emit('newclass')
    order = list(range(n))
    log = []
    counter = [0]
    removed = set()
    opnum = {}

    declared = {}

    def new_feature():
        counter[0] += 1
        k = rng.random()
        nm = f'a{counter[0]}'
        if k < .3:
            t = rng.choice([E.EString, E.EInt, E.EBoolean])
            many = rng.choice([False, False, True])
            if not many:
                declared[nm] = TYPE_DEFAULT[t.name]
            return E.EAttribute(nm, t, upper=-1 if many else 1)
        if k < .38:
            # a data type whose default is made on demand (a map, a list): an empty one of each instance's own
            t = rng.choice([E.EStringToStringMapEntry, E.EFeatureMapEntry, E.EDataType(f'L{counter[0]}', instanceClassName='java.util.List')])
            declared[nm] = [] if t.name.startswith('L') else {}
            return E.EAttribute(nm, t)
        if k < .5:
            # explicit defaults, falsy ones included, also where the type's own default is something else
            t, dv = rng.choice([(E.EInt, 3), (E.EInt, 0), (E.EString, ''), (E.EString, 'dflt'), (E.EIntegerObject, 0), (E.EIntegerObject, 5),
                                (E.EBooleanObject, False), (E.EBoolean, True), (E.EDoubleObject, 0.0)])
            declared[nm] = dv
            return E.EAttribute(nm, t, default_value=dv)
        return E.EReference(f'r{counter[0]}', rng.choice(classes), upper=rng.choice([1, -1]), containment=rng.random() < .3)
    problem = None
    for step in range(nedits):
        k = rng.random()
        c = rng.choice(classes)
        try:
            ci = classes.index(c)
            if k < .18:
                how = rng.choice(['append', 'append', 'insert', 'extend', 'iadd'])
                fs_ = [new_feature() for _ in range(2 if how in ('extend', 'iadd') else 1)]
                if how == 'append':
                    c.eStructuralFeatures.append(fs_[0])
                elif how == 'insert':
                    c.eStructuralFeatures.insert(0, fs_[0])
                elif how == 'extend':
                    c.eStructuralFeatures.extend(fs_)
                else:
                    c.eStructuralFeatures += fs_
                log.append(f'{c.name}.add({how}) {[f.name for f in fs_]}')
                for n_, f in enumerate(fs_):
                    removed.add(f.name)  # every name ever declared: wherever it is not (or no longer) a feature, it must be gone
                    names.append(f.name); emit(f'addfeat {ci} {f.name[1:]}', compare=(n_ == len(fs_) - 1))
            elif k < .22:
                counter[0] += 1
                live = {o_.name for k_ in classes for o_ in k_.eOperations}
                kw = rng.choice(['class', 'from', 'import', 'pass', 'match', 'case', 'type'])     # (soft keywords are plain names)
                oname = kw if (rng.random() < .3 and kw not in live) else f'op{counter[0]}'
                op = E.EOperation(oname); c.eOperations.append(op); log.append(f'{c.name}.addop {op.name}')
                mname = oname + '_' if keyword.iskeyword(oname) else oname
                if mname not in opnum:
                    opnum[mname] = 1000 + len(opnum)
                    names.append(mname)
                emit(f'addop {ci} {opnum[mname]}')
            elif k < .25 and len(c.eOperations):
                how = rng.choice(['remove', 'pop', 'clear'])
                cur = list(c.eOperations)
                op = rng.choice(cur)
                gone = [op]
                if how == 'remove':
                    c.eOperations.remove(op)
                elif how == 'pop':
                    c.eOperations.pop(cur.index(op))
                else:
                    gone = cur
                    c.eOperations.clear()
                log.append(f'{c.name}.removeop({how}) {[x.name for x in gone]}')
                for n_, x in enumerate(gone):
                    mname = x.name + '_' if keyword.iskeyword(x.name) else x.name
                    emit(f'removeop {ci} {opnum[mname]}', compare=(n_ == len(gone) - 1))
            elif k < .38 and len(c.eStructuralFeatures):
                how = rng.choice(['remove', 'remove', 'pop', 'del', 'clear', 'replace'])
                cur = list(c.eStructuralFeatures)
                f = rng.choice(cur)
                gone = [f]
                if how == 'replace':
                    # `features[i] = g` with g named like the feature it replaces (another type, another default): the old
                    # one is gone with its holders, the new one is a feature like any other
                    if isinstance(f, E.EAttribute):
                        nf = E.EAttribute(f.name, E.EInt, default_value=7)
                        declared[f.name] = 7
                    else:
                        nf = E.EReference(f.name, rng.choice(classes))
                    c.eStructuralFeatures[cur.index(f)] = nf
                    log.append(f'{c.name}.replace-in-place {f.name}')
                    removed.add(f.name)
                    emit(f'removefeat {ci} {f.name[1:]}', compare=False)
                    emit(f'addfeat {ci} {f.name[1:]}')
                    continue
                if how == 'remove':
                    c.eStructuralFeatures.remove(f)
                elif how == 'pop':
                    c.eStructuralFeatures.pop(cur.index(f))
                elif how == 'del':
                    del c.eStructuralFeatures[cur.index(f)]
                else:
                    gone = cur
                    c.eStructuralFeatures.clear()
                log.append(f'{c.name}.remove({how}) {[x.name for x in gone]}')
                for n_, x in enumerate(gone):
                    removed.add(x.name)
                    emit(f'removefeat {ci} {x.name[1:]}', compare=(n_ == len(gone) - 1))
            elif k < .58:
                cands = [x for x in classes if x is not c and x not in c.eSuperTypes and c not in supers_of(x) and x is not c]
                if not cands:
                    continue
                s_ = rng.choice(cands)
                front = rng.random() < .5
                how = 'insert' if front else rng.choice(['append', 'extend', 'iadd'])
                if front:
                    c.eSuperTypes.insert(0, s_)
                elif how == 'append':
                    c.eSuperTypes.append(s_)
                elif how == 'extend':
                    c.eSuperTypes.extend([s_])
                else:
                    c.eSuperTypes += [s_]
                log.append(f'{c.name}.add-supertype({how}) {s_.name}')
                emit(f'addsuper {ci} {classes.index(s_)} {int(front)}')
            elif k < .68 and len(c.eSuperTypes):
                how = rng.choice(['remove', 'remove', 'pop', 'clear'])
                cur = list(c.eSuperTypes)
                s_ = rng.choice(cur)
                gone = [s_]
                if how == 'remove':
                    c.eSuperTypes.remove(s_)
                elif how == 'pop':
                    c.eSuperTypes.pop(cur.index(s_))
                else:
                    gone = cur
                    c.eSuperTypes.clear()
                log.append(f'{c.name}.remove-supertype({how}) {[x.name for x in gone]}')
                for n_, x in enumerate(gone):
                    emit(f'removesuper {ci} {classes.index(x)}', compare=(n_ == len(gone) - 1))
            elif k < .9:
                if c.abstract:
                    continue
                o = c(); instances.append((o, c)); log.append(f'new {c.name}')
                emit(f'newinst {ci}')
                # touch every feature so that holders exist before later edits
                for f in declared_features(c):
                    if rng.random() < .6:
                        getattr(o, f.name)
                        emit(f'touch {len(instances) - 1} {f.name[1:]}')
            else:
                if not instances:
                    continue
                o, oc = rng.choice(instances)
                fs = [f for f in declared_features(oc) if isinstance(f, E.EAttribute) and not f.many and f.eType is E.EInt]
                if not fs:
                    continue
                f = rng.choice(fs); setattr(o, f.name, 11); log.append(f'set {oc.name}.{f.name}')
                emit(f'touch {[x[0] for x in instances].index(o)} {f.name[1:]}')
        except Exception as e:
            problem = ('edit-raised', f'`{log[-1] if log else "?"}` then the next edit raised {type(e).__name__}: {str(e)[:100]}')
            break
        ctx.evaluations += 1
        ctx.count('edit/' + log[-1].split()[0].split('.')[-1].split('(')[0] + ('/' + log[-1].split('(')[1].split(')')[0] if '(' in log[-1].split()[0] else ''))
        try:
            problem = observe(classes, instances, removed, E, EcoreUtils, declared)
        except Exception as e:
            problem = ('observe-raised', f'{type(e).__name__}: {str(e)[:120]}')
        if problem:
            break
    ctx.traces += 1
    if instances:
        ctx.nontriv(h)
    if problem:
        ctx.violate({'clause': problem[0]}, f'{problem[0]}: {problem[1]} (after `{log[-1] if log else ""}`)', {'case': h, 'edits': log})
    if h < 2:
        ctx.sample({'case': h, 'edits': log[:12]})


def construction_pass(ctx):
    """hierarchies given at *construction* (`EClass(name, superclass=(…))`), in every order — a supertype listed before its
    own subtype, diamonds, repeated ancestors: Python cannot linearise every such order and the metaclass has to fall back;
    whatever it does, an instance has every feature of every ancestor, is an instance of each of them, and of nothing else"""
    from pyecore import ecore as E
    from pyecore.valuecontainer import EcoreUtils
    for k in range(60 if ctx.quick() else 1500):
        rng = common.sub_rng(ctx.seed, 'C12', 'construction', k)
        classes, anc = [], []
        n = rng.randint(2, 6)
        for i in range(n):
            sup = rng.sample(range(i), rng.randint(0, min(i, 3))) if i else []
            rng.shuffle(sup)
            try:
                c = E.EClass(f'K{i}', superclass=tuple(classes[j] for j in sup))
            except Exception as e:
                ctx.violate({'clause': 'construction-raised'}, f'EClass(K{i}, superclass=K{sup}) raised {type(e).__name__}: {e}',
                            {'construction': k})
                return
            c.eStructuralFeatures.append(E.EAttribute(f'a{i}', E.EInt, default_value=i))
            classes.append(c)
            a = set(sup)
            for j in sup:
                a |= anc[j]
            anc.append(a)
        extra = E.EClass('Unrelated')
        ctx.evaluations += 1
        ctx.nontriv(('construction', k))
        for i, c in enumerate(classes):
            try:
                x = c()
            except Exception as e:
                ctx.violate({'clause': 'construction-raised'}, f'instantiating K{i} raised {type(e).__name__}: {e}', {'construction': k})
                return
            for j in range(n):
                has = j == i or j in anc[i]
                try:
                    got = getattr(x, f'a{j}')
                    seen = got == j
                except AttributeError:
                    seen = False
                inst = isinstance(x, classes[j].python_class) and EcoreUtils.isinstance(x, classes[j])
                if seen != has or inst != has:
                    ctx.violate({'clause': 'construction'}, f'K{i} built with its supertypes at construction: feature of K{j} visible={seen}, '
                                f'instance of K{j}={inst}, ancestor={has}', {'construction': k})
                    return
            if {classes.index(t) for t in c.eAllSuperTypes()} != anc[i] or EcoreUtils.isinstance(x, extra):
                ctx.violate({'clause': 'construction'}, f'K{i}: eAllSuperTypes() differ from the declared ancestors', {'construction': k})
                return


def shadow_pass(ctx):
    """a subclass declares a feature named like an inherited one (another type, another default), instances use it, then
    the subclass feature is removed: the instances read and check the *inherited* feature — its default, its type"""
    from pyecore import ecore as E
    for k in range(16 if ctx.quick() else 200):
        rng = common.sub_rng(ctx.seed, 'C12', 'shadow', k)
        A = E.EClass('A')
        ax = E.EAttribute('x', E.EInt, default_value=rng.choice([0, 4]))
        A.eStructuralFeatures.append(ax)
        Mid = E.EClass('Mid', superclass=(A,))
        B = E.EClass('B', superclass=(Mid,) if k % 2 else (A,))
        bx = E.EAttribute('x', E.EString, upper=-1 if k % 3 == 0 else 1)
        B.eStructuralFeatures.append(bx)
        touched, fresh = B(), B()
        if bx.many:
            touched.x.append('hello')
        else:
            touched.x = 'hello'
        how = rng.choice(['remove', 'pop', 'clear'])
        if how == 'remove':
            B.eStructuralFeatures.remove(bx)
        elif how == 'pop':
            B.eStructuralFeatures.pop()
        else:
            B.eStructuralFeatures.clear()
        ctx.evaluations += 1
        ctx.nontriv(('shadow', k))
        for who, o in (('an instance that used the removed feature', touched), ('an untouched instance', fresh), ('a new instance', B())):
            problem = None
            try:
                got = o.x
                if got != ax.default_value or isinstance(got, str):
                    problem = f'reads {got!r}, the inherited feature\'s default is {ax.default_value!r}'
                else:
                    try:
                        o.x = 'text'
                        problem = 'accepts a str where the inherited feature is an EInt'
                    except E.BadValueError:
                        o.x = 7
                        if o.x != 7:
                            problem = 'does not keep an int written to the inherited feature'
            except Exception as e:
                problem = f'raised {type(e).__name__}: {e}'
            if problem:
                ctx.violate({'clause': 'shadow'}, f'a subclass feature x ({"many" if bx.many else "single"} EString) shadowing an inherited '
                            f'EInt x was removed ({how}): {who} {problem}', {'shadow': k})
                return


def shadow_add_pass(ctx):
    """the other direction: instances of a class (and of a subclass of it) have used an inherited feature; then the class
    declares a feature of the same name, another type, another multiplicity (append / insert / extend / whole assignment):
    old and new instances alike expose the feature the class declares now — its default, its multiplicity, its type"""
    from pyecore import ecore as E
    for k in range(24 if ctx.quick() else 300):
        rng = common.sub_rng(ctx.seed, 'C12', 'shadow-add', k)
        A = E.EClass('A')
        ax = E.EAttribute('x', E.EString, upper=-1 if k % 4 == 3 else 1)
        A.eStructuralFeatures.append(ax)
        Mid = E.EClass('Mid', superclass=(A,))
        B = E.EClass('B', superclass=(Mid,) if k % 2 else (A,))
        Sub = E.EClass('Sub', superclass=(B,))
        touched, touched_sub, fresh = B(), Sub(), B()
        for o in (touched, touched_sub):
            if ax.many:
                o.x.append('hello')
            else:
                o.x = 'hello'
        many = k % 3 == 0
        bx = E.EAttribute('x', E.EInt, upper=-1 if many else 1, default_value=None if many else rng.choice([0, 4]))
        how = rng.choice(['append', 'insert', 'extend', 'assign'])
        if how == 'append':
            B.eStructuralFeatures.append(bx)
        elif how == 'insert':
            B.eStructuralFeatures.insert(0, bx)
        elif how == 'extend':
            B.eStructuralFeatures.extend([E.EAttribute('other', E.EString), bx])
        else:
            B.eStructuralFeatures = [bx]
        ctx.evaluations += 1
        ctx.nontriv(('shadow-add', k))
        ctx.count(f'shadow-add/{how}')
        for who, o in (('an instance that had used the inherited feature', touched), ('an instance of a subclass that had used it', touched_sub),
                       ('an untouched instance', fresh), ('a new instance', B())):
            problem = None
            try:
                got = o.x
                if many:
                    if not hasattr(got, 'append') or len(got):
                        problem = f'reads {list(got) if hasattr(got, "append") else got!r} where the feature declared now starts as an empty collection'
                    else:
                        try:
                            got.append('text')
                            problem = 'accepts a str where the feature declared now is an EInt'
                        except E.BadValueError:
                            got.append(7)
                elif got != bx.default_value or isinstance(got, str) or hasattr(got, 'append'):
                    problem = f'reads {got!r}, the default of the feature declared now is {bx.default_value!r}'
                else:
                    try:
                        o.x = 'text'
                        problem = 'accepts a str where the feature declared now is an EInt'
                    except E.BadValueError:
                        o.x = 7
                        if o.x != 7:
                            problem = 'does not keep an int written to the feature declared now'
            except Exception as e:
                problem = f'raised {type(e).__name__}: {e}'
            if problem:
                ctx.violate({'clause': 'shadow', 'edit': 'add'}, f'a class declared ({how}) a feature x ({"many" if many else "single"} EInt) named like an inherited '
                            f'{"many" if ax.many else "single"} EString x that instances had used: {who} {problem}', {'shadow_add': k})
                return


def below_static_pass(ctx):
    """dynamic classes below a *static* one (directly, or through another dynamic class; the supertype given at construction
    or appended later): an instance's eClass is the EClass it was made from, and features added to the dynamic class
    afterwards are there for old and new instances — dir(), getattr, default"""
    import sys
    import types as _t
    from pyecore import ecore as E
    for k in range(8 if ctx.quick() else 60):
        rng = common.sub_rng(ctx.seed, 'C12', 'below-static', k)
        src = ('from pyecore.ecore import *\n' + ('@EMetaclass\nclass S(object):\n' if k % 2 else 'class S(EObject, metaclass=MetaEClass):\n') +
               '    x = EAttribute(eType=EString)\n')
        mod = _t.ModuleType(f'c12_below_{k}')
        sys.modules[mod.__name__] = mod
        try:
            exec(compile(src, mod.__name__, 'exec'), mod.__dict__)
        finally:
            sys.modules.pop(mod.__name__, None)
        how = rng.choice(['constructor', 'append', 'through-dynamic'])
        if how == 'constructor':
            D = E.EClass('D', superclass=(mod.S.eClass,))
        elif how == 'append':
            D = E.EClass('D')
            D.eSuperTypes.append(mod.S.eClass)
        else:
            M = E.EClass('M', superclass=(mod.S.eClass,))
            D = E.EClass('D', superclass=(M,))
        old = D()
        D.eStructuralFeatures.append(E.EAttribute('late', E.EInt, default_value=3))
        D.eStructuralFeatures.append(E.EAttribute('many', E.EString, upper=-1))
        ctx.evaluations += 1
        ctx.count('below-static/' + how)
        ctx.nontriv(('below-static', k))
        for who, o in (('an instance created before the edit', old), ('an instance created after it', D())):
            problem = None
            try:
                if o.eClass is not D:
                    problem = f'its eClass is {o.eClass!r}, not the class it was made from'
                elif 'late' not in dir(o) or 'x' not in dir(o):
                    problem = f'dir() lists {sorted(n for n in dir(o) if not n.startswith("_"))[:8]}'
                elif o.late != 3 or list(o.many) != [] or o.x is not None:
                    problem = f'late reads {o.late!r}, many {list(o.many)!r}'
                else:
                    o.late = 5
                    o.many.append('v')
                    if o.late != 5 or not o.eIsSet('late'):
                        problem = 'a value written to the late feature is not kept'
            except Exception as e:
                problem = f'{type(e).__name__}: {e}'
            if problem:
                ctx.violate({'clause': 'below-static'}, f'dynamic class D below a static class ({how}), two features added afterwards: {who}: {problem}',
                            {'below_static': k, 'how': how})
                return


def run(ctx):
    common.use_repo()
    construction_pass(ctx)
    below_static_pass(ctx)
    shadow_pass(ctx)
    shadow_add_pass(ctx)
    n = 800 if ctx.quick() else 6000
    ned = 14 if ctx.quick() else 20
    ctx.rule = (f'{n} edit sequences (<= {ned}) over graphs of 2-4 dynamic classes: add/remove attribute or reference, add/remove '
                'supertype at the front or the back (multiple inheritance, diamonds, every order), instance creation and feature '
                'access interleaved; after every edit, for every instance created so far: dir(), getattr of every declared feature '
                '(readable, multiplicity, default), removed names gone, isinstance / EcoreUtils.isinstance matrix vs the declared '
                'supertypes; every edit is also sent to the Lean model (`driver cls`) and the descriptor/raw-holder/'
                'absent classification of every declared name on every instance plus the isinstance matrix are compared. non-trivial & distinct = sequences that created instances')
    lines, reals = [], []
    for h in range(n):
        run_case(ctx, h, ned, lines, reals)
    outs = common.run_driver('cls', lines)
    bad = set()
    for (h, real, line), out in zip(reals, outs):
        ctx.evaluations += 1
        if real is not None and real != out and h not in bad:
            bad.add(h)
            ctx.diverge(f'case {h} after `{line}`: implementation {real!r}, model {out!r}', {'case': h, 'line': line})
    ctx.extra['correspondence_records'] = len(lines)


def search(ctx):
    pass


def replay(ctx, data):
    common.use_repo()
    c2 = common.Ctx('C12', data['tier'], data['seed'])
    run_case(c2, data['replay']['case'], 14 if data['tier'] == 'quick' else 20)
    for v in c2.violations:
        print('  ', v['what']); print('  edits:', v['replay']['edits'])
    return 1 if c2.violations else 0
