"""C09 — JSON save then load reproduces the model (DESIGN.md section 4)."""
import os
import shutil
import tempfile
from . import common, models
from .c08 import wellformed, unproxy, resave_case, empty_case, fresh_set_case, several_packages_roundtrip, repeats_case, named_features_case


def canon_json(roots):
    """as models.canon, with proxies standing for their targets"""
    order = []

    def walk(o):
        order.append(o)
        for f in sorted((f for f in o.eClass.eAllReferences() if f.containment), key=lambda f: f.name):
            v = o.eGet(f)
            for c in (v if f.many else ([v] if v is not None else [])):
                walk(unproxy(c) or c)
    for r in roots:
        walk(r)
    pos = {id(o): i for i, o in enumerate(order)}
    out = []
    for o in order:
        rec = {'class': o.eClass.name, 'attrs': {}, 'refs': {}}
        for f in sorted(o.eClass.eAllStructuralFeatures(), key=lambda f: f.name):
            if f.derived or f.transient:
                continue
            v = o.eGet(f)
            if f.is_attribute:
                rec['attrs'][f.name] = [models.canon_value(x) for x in v] if f.many else models.canon_value(v)
            else:
                tg = list(v) if f.many else ([v] if v is not None else [])
                rec['refs'][f.name] = [pos.get(id(unproxy(t)), 'unresolved') for t in tg]
        out.append(rec)
    return out


def roundtrip(m, tmp, use_uuid, serialize_default):
    from pyecore.resources import ResourceSet, URI
    from pyecore.resources.json import JsonOptions
    rset = ResourceSet()
    path = os.path.join(tmp, 'model.json')
    res = rset.create_resource(URI(path))
    res.use_uuid = use_uuid
    for r in m.roots:
        res.append(r)
    before = models.canon(m.roots)
    opts = {JsonOptions.SERIALIZE_DEFAULT_VALUES: serialize_default}
    res.save(options=opts)
    rset2 = ResourceSet()
    rset2.metamodel_registry[m.pk.nsURI] = m.pk
    res2 = rset2.get_resource(URI(path), options=opts)
    after = canon_json(res2.contents)
    return before, after, res2, path


def run_case(ctx, h, tmp, nobj_max):
    rng = common.sub_rng(ctx.seed, 'C09', h)
    sp = models.gen_mmspec(rng, h)
    m = models.gen_model(rng, sp, nobj=rng.randint(2, nobj_max))
    use_uuid, sd = rng.random() < .3, rng.random() < .4
    opts = f'uuid={int(use_uuid)} defaults={int(sd)}'
    ctx.evaluations += 1
    ctx.count('opts/' + opts)
    try:
        before, after, res2, path = roundtrip(m, tmp, use_uuid, sd)
    except Exception as e:
        import traceback
        tb = [l for l in traceback.format_exc().strip().splitlines() if 'pyecore' in l]
        ctx.violate({'clause': 'roundtrip-raised', 'error': type(e).__name__},
                    f'save/load raised {type(e).__name__}: {str(e)[:80]} [{opts}] at {tb[-1].strip() if tb else ""}',
                    {'case': h, 'options': opts})
        return
    d = models.diff_canon(before, after)
    ctx.nontriv(h)
    if d:
        ctx.violate({'clause': 'not-isomorphic'}, f'reloaded model differs: {d} [{opts}]', {'case': h, 'options': opts, 'diff': d})
        return
    wf = wellformed(res2.contents)
    if wf:
        ctx.violate({'clause': 'loaded-not-wellformed'}, f'loaded model violates C01-C03: {wf} [{opts}]', {'case': h, 'options': opts})
    if h < 2:
        ctx.sample({'case': h, 'options': opts, 'objects': len(m.objs), 'document_head': open(path, encoding='utf-8').read()[:300]})


def layer_correspondence(ctx, tmp):
    """which JSON form a single-valued attribute takes (absent / null / native value / text) vs the Lean encodeOne"""
    import datetime, json
    from pyecore import ecore as E
    from pyecore.resources import ResourceSet, URI
    from pyecore.resources.json import JsonOptions
    from .c08 import enc
    from .c17 import dt_fields
    En = E.EEnum('En', literals=['A', 'B', 'SHARED'])
    pk = E.EPackage('lay', 'http://verif/jlay', 'jlay')
    A = E.EClass('A')
    pk.eClassifiers.extend([A, En])
    d0 = datetime.datetime(2001, 2, 3, 4, 5, 6, 7, datetime.timezone(datetime.timedelta(hours=1)))
    decls = {'b': (E.EBoolean, [None, True, False]), 'bo': (E.EBooleanObject, [None, True, False]),
             'i': (E.EInt, [None, 0, 5, -3, 10 ** 20]), 'io': (E.EIntegerObject, [None, 0, 5]),
             's': (E.EString, [None, '', 'x', ' a b ', 'é𝔘"']), 'e': (En, [None, En.A, En.SHARED]),
             'dt': (E.EDate, [None, d0, datetime.datetime(1999, 12, 31, 23, 59, 59, 0)])}
    for n, (t, _) in decls.items():
        A.eStructuralFeatures.append(E.EAttribute(n, t))

    def tok(v):
        if v is None:
            return 'N'
        if isinstance(v, bool):
            return f'b:{int(v)}'
        if isinstance(v, int):
            return f'i:{v}'
        if isinstance(v, str):
            return 's:' + enc(v)
        if isinstance(v, E.EEnumLiteral):
            return f"l:{['A', 'B', 'SHARED'].index(v.name)}"
        return 'd:' + dt_fields(v)
    model_in, expect = [], []
    path = os.path.join(tmp, 'layer.json')
    for sd in (False, True):
        for n, (t, vals) in decls.items():
            f = A.findEStructuralFeature(n)
            dflt = f.get_default_value()
            for v in vals:
                a = A()
                setattr(a, n, v)
                rs = ResourceSet(); r = rs.create_resource(URI(path)); r.append(a)
                try:
                    r.save(options={JsonOptions.SERIALIZE_DEFAULT_VALUES: sd})
                    rs2 = ResourceSet(); rs2.metamodel_registry[pk.nsURI] = pk
                    back = getattr(rs2.get_resource(URI(path)).contents[0], n)
                except Exception as e:
                    ctx.violate({'clause': 'single-attribute-value', 'error': type(e).__name__},
                                f'{n}={v!r} (serialize defaults {sd}): save/load raised {type(e).__name__}: {e}', {'kind': 'layer', 'feature': n})
                    continue
                d = json.load(open(path))
                if n not in d:
                    form = 'absent'
                elif d[n] is None:
                    form = 'null'
                elif isinstance(d[n], bool):
                    form = 'true' if d[n] else 'false'
                elif isinstance(d[n], int):
                    form = str(d[n])
                else:
                    form = 'str:' + enc(d[n])
                ctx.evaluations += 1
                ctx.count('layer/' + form.split(':')[0])
                model_in.append(f'one {int(sd)} {tok(dflt)} {tok(v)}'); expect.append((n, sd, v, form))
                if back != v or type(back) is not type(v):
                    ctx.violate({'clause': 'single-attribute-value'}, f'{n}={v!r} (serialize defaults {sd}) reloads as {back!r}',
                                {'kind': 'layer', 'feature': n})
    out = common.run_driver('jsonv', model_in)
    for line, exp, got in zip(model_in, expect, out):
        n, sd, v, want = exp
        if got != want and len(ctx.divergences) < 20:
            ctx.diverge(f'{n}={v!r} defaults={sd}: model `{got[:100]}` vs implementation `{want[:100]}`', {'line': line})
    ctx.traces += len(model_in)



# ---------------------------------------------------------------------------------------------
# document layer: the whole save and the whole load, value by value, against Model/JsonDoc.lean

def mutate_json(rng, data, classes):
    """one structural mutation of a saved document that keeps every attribute value as it was: drop a key, add an unknown
    key, break or empty a reference token.  Keys of bidirectional references are left alone (the handshake of load is the
    Store's business).  -> (kind, bytes) or None"""
    import json
    d = json.loads(data.decode('utf-8'))
    feats = {}
    for c in classes:
        for f in c.eAllStructuralFeatures():
            feats[f.name] = f
    objs = []

    def walk(x):
        if isinstance(x, dict):
            if '$ref' not in x:
                objs.append(x)
            for v in x.values():
                walk(v)
        elif isinstance(x, list):
            for v in x:
                walk(v)
    walk(d)
    if not objs:
        return None
    o = rng.choice(objs)
    keys = [k for k in o if k in feats and (feats[k].is_attribute or feats[k].eOpposite is None)]
    kind = rng.choice(['drop-key', 'unknown-key', 'bad-ref', 'null-value'])
    if kind == 'drop-key' and keys:
        del o[rng.choice(keys)]
    elif kind == 'unknown-key':
        o['zzzUnknown'] = 1
    elif kind == 'null-value':
        ks = [k for k in keys if not feats[k].many]
        if not ks:
            return None
        o[rng.choice(ks)] = None
    elif kind == 'bad-ref':
        refs = [k for k in keys if not feats[k].is_attribute and not feats[k].containment]
        if not refs:
            return None
        k = rng.choice(refs)
        v = o[k]
        tgt = v if isinstance(v, dict) else (rng.choice(v) if v else None)
        if not isinstance(tgt, dict) or '$ref' not in tgt:
            return None
        tgt['$ref'] = rng.choice(['//@nope.0', '/99', 'no-such-id'])
    else:
        return None
    return kind, json.dumps(d).encode('utf-8')


def doc_layer(ctx, tmp):
    """every generated (metamodel, model, options): (1) the values `save` wrote vs the model's `jEncodeDoc` of the same
    object forest; (2) the model's `jDecodeDoc` of those values vs the normal form of what `load` built; (3) the same for
    structurally mutated documents, where load may raise (the model must then say `fail`)"""
    from pyecore.resources import ResourceSet, URI
    from pyecore.resources.json import JsonResource, JsonOptions
    from . import xdoc
    n = 150 if ctx.quick() else 3000
    lines, wants = [], []
    for h in range(n):
        rng = common.sub_rng(ctx.seed, 'C09', 'doc', h)
        sp = models.gen_mmspec(rng, h)
        m = models.gen_model(rng, sp, nobj=rng.randint(2, 9))
        classes = [m.classes[c['name']] for c in sp.classes]
        use_uuid, sd = rng.random() < .35, rng.random() < .4
        rep = {'case': h, 'layer': 'document', 'options': f'uuid={int(use_uuid)} defaults={int(sd)}'}
        rset = ResourceSet()
        rset.resource_factory['json'] = lambda uri: JsonResource(uri)
        path = os.path.join(tmp, 'doc.json')
        res = rset.create_resource(URI(path))
        res.use_uuid = use_uuid
        for r in m.roots:
            res.append(r)
        try:
            res.save(options={JsonOptions.SERIALIZE_DEFAULT_VALUES: sd})
        except Exception as e:
            ctx.violate({'clause': 'roundtrip-raised', 'error': type(e).__name__}, f'save raised {type(e).__name__}: {e}', rep)
            continue
        data = open(path, 'rb').read()
        forest = '(' + ' '.join(xdoc.jsnode(r, classes, m.roots) for r in m.roots) + ')'
        lines += xdoc.jmm_lines(classes)
        wants += [None] * (len(classes) + 1)
        lines.append(f'jenc {int(sd)} {int(use_uuid)} {forest}')
        wants.append((rep, 'save', xdoc.jdoc_sexp(data)[1:-1].strip()))
        variants = [('saved', data)]
        for _ in range(2):
            mu = mutate_json(rng, data, classes)
            if mu:
                variants.append(mu)
        for kind, bytes_ in variants:
            with open(path, 'wb') as fh:
                fh.write(bytes_)
            rset2 = ResourceSet()
            rset2.resource_factory['json'] = lambda uri: JsonResource(uri)
            rset2.metamodel_registry[m.pk.nsURI] = m.pk
            try:
                res2 = rset2.get_resource(URI(path))
                roots2 = list(res2.contents)
                nf = ' '.join(xdoc.jnormal_form(r, classes, roots2, res2.use_uuid) for r in roots2)
            except Exception:
                nf = 'fail'
            lines.append(f'jdec {int(sd)} {int(use_uuid)} {xdoc.jdoc_sexp(bytes_)}')
            wants.append((dict(rep, document=kind), 'load', nf))
            ctx.count('doc/' + kind + ('/raises' if nf == 'fail' else ''))
        ctx.nontriv(('doc', h))
    outs = common.run_driver('jdoc', lines)
    nbad = 0
    for l, w, o in zip(lines, wants, outs):
        if w is None:
            continue
        ctx.evaluations += 1
        rep, what, want = w
        if o.strip() != want.strip():
            nbad += 1
            if nbad <= 20:
                i = next((k for k in range(min(len(o), len(want))) if o[k] != want[k]), min(len(o), len(want)))
                ctx.diverge(f'document layer, {what} ({rep.get("document", "saved")}): first difference at {i}: model `…{o[max(0, i - 80):i + 120]}` vs '
                            f'implementation `…{want[max(0, i - 80):i + 120]}`', rep)
    ctx.traces += len(lines)
    ctx.extra['document_layer_records'] = len([w for w in wants if w])


def run(ctx):
    common.use_repo()
    n = 300 if ctx.quick() else 6000
    ctx.rule = (f'{n} generated (metamodel, model, options) triples as for C08, saved as JSON and loaded in a fresh resource set; '
                'oracle: isomorphism of the canonical dump (proxies standing for their targets) + C01-C03 on the loaded model')
    tmp = tempfile.mkdtemp(prefix='verif_c09_')
    try:
        for h in range(n):
            run_case(ctx, h, tmp, 10 if ctx.quick() else 25)
        layer_correspondence(ctx, tmp)
        doc_layer(ctx, tmp)
        empty_case(ctx, tmp, 'json')
        for k in range(20 if ctx.quick() else 300):
            fresh_set_case(ctx, 'C09', k, tmp, 'json')
        for h in range(80 if ctx.quick() else 1500):
            resave_case(ctx, 'C09', h, tmp, 'json')
        for k in range(24 if ctx.quick() else 400):
            several_packages_roundtrip(ctx, k, tmp, fmt='json')
            repeats_case(ctx, 'C09', k, tmp, 'json')
            named_features_case(ctx, 'C09', k, tmp, 'json')
    finally:
        shutil.rmtree(tmp, ignore_errors=True)


def search(ctx):
    pass


def replay(ctx, data):
    common.use_repo()
    tmp = tempfile.mkdtemp(prefix='verif_c09_')
    c2 = common.Ctx('C09', data['tier'], data['seed'])
    try:
        run_case(c2, data['replay']['case'], tmp, 10 if data['tier'] == 'quick' else 25)
    finally:
        shutil.rmtree(tmp, ignore_errors=True)
    for v in c2.violations:
        print('  ', v['what'])
    return 1 if c2.violations else 0
