"""C15 — unset features read as their default, privately, and reading is free (DESIGN.md section 4)."""
import io
from . import common

IMMUT = ['EInt', 'EString', 'EBoolean', 'EDouble', 'EIntegerObject', 'EBigInteger', 'ELong', 'EChar', 'EJavaObject']
MAPPY = ['EStringToStringMapEntry', 'EFeatureMapEntry']


def declarations(rng, with_shared):
    """attribute declarations: (name, kwargs builder, kind) over built-in and user data types x default sources"""
    from pyecore import ecore as E
    decls = []
    n = rng.randint(3, 5)
    for k in range(n):
        c = rng.random()
        if c < .3:
            dt = getattr(E, rng.choice(MAPPY))
            decls.append(('map', E.EAttribute(f'a{k}', dt)))
        elif c < .45:
            L = E.EDataType(f'L{k}', list, type_as_factory=True)
            decls.append(('list', E.EAttribute(f'a{k}', L)))
        elif c < .55 and with_shared:
            L = E.EDataType(f'M{k}', list)
            decls.append(('list-explicit', E.EAttribute(f'a{k}', L, default_value=[])))      # explicit mutable default
        elif c < .62:
            # a default literal whose parsed value is mutable (user data type): every read must get its own value
            T = E.EDataType(f'T{k}', list, from_string=lambda s_: [int(x) for x in s_.split(',') if x])
            decls.append(('list', E.EAttribute(f'a{k}', T, defaultValueLiteral=rng.choice(['', '1', '1,2']))))
        elif c < .7:
            decls.append(('int', E.EAttribute(f'a{k}', rng.choice([E.EInt, E.EIntegerObject, E.ELong]),
                                              defaultValueLiteral=str(rng.choice([5, -3, 0])))))
        elif c < .8:
            # explicit defaults, falsy ones included, over types whose own default differs (None, or a user default)
            U = E.EDataType(f'U{k}', int, rng.choice([None, 4, 100]))
            t_, dv_ = rng.choice([E.EInt, E.EIntegerObject, U]), rng.choice([7, 9, 0, 0])
            a_ = E.EAttribute(f'a{k}', t_, default_value=dv_)
            a_.__dict__['_verif_declared'] = dv_       # what was written, whatever the library made of it
            decls.append(('int', a_))
        elif c < .9:
            U = E.EDataType(f'U{k}', int, rng.choice([None, 4]))
            decls.append(('int', E.EAttribute(f'a{k}', U)))
        else:
            decls.append(('int', E.EAttribute(f'a{k}', getattr(E, rng.choice(['EInt', 'EIntegerObject', 'ELong', 'EBigInteger'])))))
    return decls


class Impl:
    def __init__(self, decls, nobj):
        from pyecore import ecore as E
        self.decls = decls
        self.A = E.EClass('A')
        for _, f in decls:
            self.A.eStructuralFeatures.append(f)
        self.objs = [self.A() for _ in range(nobj)]
        # `src` table read off the declarations as they are now: what does get_default_value() hand out?
        self.src, self.shared = [], []
        for kind, f in decls:
            a, b = f.get_default_value(), f.get_default_value()
            if isinstance(a, (dict, list)):
                if a is b:
                    self.shared.append(a)
                    self.src.append(f'shared:{len(self.shared) - 1}')
                else:
                    init = sorted(a) if isinstance(a, list) else []
                    self.src.append('factory' + (':' + ','.join(map(str, init)) if init else ''))
            elif a is None:
                self.src.append('none')
            else:
                self.src.append(f'imm:{int(a)}')
        self.cells = list(self.shared)

    def cell(self, v):
        for i, c in enumerate(self.cells):
            if c is v:
                return i
        self.cells.append(v)
        return len(self.cells) - 1

    def tok(self, v):
        if v is None:
            return 'n'
        if isinstance(v, (dict, list)):
            content = sorted(v) if isinstance(v, list) else sorted(k for (k, _) in v.keys())
            return f"c{self.cell(v)}=[{','.join(map(str, content))}]"
        return f'i:{int(v)}'

    def dump(self):
        out = []
        for oi, o in enumerate(self.objs):
            for fi, (kind, f) in enumerate(self.decls):
                holder = o.__dict__.get(f.name)
                held = '-' if holder is None else self.tok(holder._get())
                out.append(f"{oi}.{fi}:{1 if o.eIsSet(f) else 0}:{held}")
        return ' '.join(out)

    def apply(self, line):
        ws = line.split()
        op, o, fi = ws[0], self.objs[int(ws[1])], int(ws[2])
        kind, f = self.decls[fi]
        if op == 'read':
            return self.tok(getattr(o, f.name)) + ' | ' + self.dump()
        if op == 'write':
            setattr(o, f.name, int(ws[3]))
        elif op == 'writenone':
            setattr(o, f.name, None)
        elif op == 'writefresh':
            v = {} if kind == 'map' else []
            self.cell(v)
            setattr(o, f.name, v)
        elif op == 'del':
            delattr(o, f.name)
            # a factory default evaluated by del is a new cell: number it in allocation order like the model
            h = o.__dict__.get(f.name)
            if h is not None and isinstance(h._get(), (dict, list)):
                self.cell(h._get())
        elif op == 'mutate':
            v = getattr(o, f.name)
            if isinstance(v, dict):
                self.cell(v); v[(int(ws[3]), len(v))] = 'x'
            elif isinstance(v, list):
                self.cell(v); v.append(int(ws[3]))
        return self.dump()

    def save_bytes(self):
        from pyecore.resources.xmi import XMIResource
        from pyecore.resources import URI
        from pyecore import ecore as E
        if not getattr(self, '_pk', None):
            self._pk = E.EPackage('p', 'http://c15', 'p')
            self._pk.eClassifiers.append(self.A)
            for _, f in self.decls:
                if f._eType.ePackage is None and f._eType.name[0] in 'LMU':
                    self._pk.eClassifiers.append(f._eType)

        class Mem(URI):
            def __init__(s):
                super().__init__('mem.xmi'); s.buf = io.BytesIO()

            def create_outstream(s):
                s.buf = io.BytesIO(); return s.buf

            def close_stream(s):
                pass
        res = XMIResource(Mem())
        for o in self.objs:
            res.contents.append(o)       # plain list append: do not disturb _eresource bookkeeping of the objects
        try:
            res.save()
            return res.uri.buf.getvalue()
        except Exception as e:
            return ('save-raised ' + type(e).__name__).encode()


def expected_default(kind, f):
    """independent statement of the declared default: literal, else explicit, else type default; empty container for factories"""
    if f.defaultValueLiteral is not None:
        if kind == 'list':
            return [int(x) for x in f.defaultValueLiteral.split(',') if x]
        return int(f.defaultValueLiteral)
    if '_verif_declared' in f.__dict__:
        return f.__dict__['_verif_declared']
    if f.default_value is not None:
        return f.default_value
    t = f._eType
    if t.type_as_factory:
        return {} if t.eType is dict else []
    return t._default_value


def gen_ops(rng, decls, nobj, n):
    ops = []
    for _ in range(n):
        o, fi = rng.randrange(nobj), rng.randrange(len(decls))
        kind = decls[fi][0]
        k = rng.random()
        if k < .35:
            ops.append(f'read {o} {fi}')
        elif k < .5:
            ops.append(f'del {o} {fi}')
        elif k < .75:
            if kind == 'int':
                ops.append(f'write {o} {fi} {rng.randint(-2, 9)}' if rng.random() < .8 else f'writenone {o} {fi}')
            else:
                ops.append(f'writefresh {o} {fi}')
        else:
            ops.append(f'mutate {o} {fi} {rng.randint(1, 9)}' if kind != 'int' else f'read {o} {fi}')
    return ops


def run_case(ctx, h, with_shared, model_in, expect, nops):
    rng = common.sub_rng(ctx.seed, 'C15', h, with_shared)
    decls = declarations(rng, with_shared)
    nobj = rng.choice([2, 3])
    impl = Impl(decls, nobj)
    ops = gen_ops(rng, decls, nobj, nops)
    for (kind, f), sline in zip(decls, impl.src):
        if sline.startswith('shared') and kind != 'list-explicit':
            ctx.extra.setdefault('noshared_table_failures', []).append(f'{f.name}:{f._eType.name}')
    model_in.append(f'reset {nobj} {len(impl.shared)}'); expect.append(None)
    for i, sline in enumerate(impl.src):
        model_in.append(f'src {i} {sline}'); expect.append(None)
    desc = [f'{f.name}:{f._eType.name}:{s}' for (k, f), s in zip(decls, impl.src)]
    touched = set()
    done = []
    for line in ops:
        ws = line.split()
        o, fi = int(ws[1]), int(ws[2])
        kind, f = decls[fi]
        before_isset = [[x.eIsSet(ff) for _, ff in decls] for x in impl.objs]
        before_bytes = impl.save_bytes() if ws[0] == 'read' else None
        snap = {(oi, fj): (None if x.__dict__.get(ff.name) is None else repr(x.__dict__[ff.name]._get()))
                for oi, x in enumerate(impl.objs) for fj, (_, ff) in enumerate(decls)}
        rec = impl.apply(line)
        done.append(line)
        model_in.append(line); expect.append((h, desc, done[:], rec))
        ctx.evaluations += 1
        ctx.count('op/' + ws[0]); ctx.count('src/' + impl.src[fi].split(':')[0])
        problems = []
        x = impl.objs[o]
        if ws[0] == 'read':
            if (o, fi) not in touched:
                want = expected_default(kind, f)
                got = getattr(x, f.name)
                if got != want or x.eIsSet(f):
                    problems.append(('default', f'never-set o{o}.{f.name} reads {got!r} (eIsSet {x.eIsSet(f)}), declared default {want!r}'))
            if [[y.eIsSet(ff) for _, ff in decls] for y in impl.objs] != before_isset:
                problems.append(('read-changes-isset', f'`{line}` changed eIsSet'))
            if impl.save_bytes() != before_bytes:
                problems.append(('read-changes-save', f'`{line}` changed what save() writes'))
        if ws[0] == 'del':
            want = expected_default(kind, f)
            if getattr(x, f.name) != want:
                problems.append(('delete-default', f'after del o{o}.{f.name} reads {getattr(x, f.name)!r}, default {want!r}'))
        if ws[0] in ('mutate',):
            ctx.nontriv((h, len(done)))
            for (oi, fj), was in snap.items():
                if (oi, fj) == (o, fi) or was is None:
                    continue
                now = repr(impl.objs[oi].__dict__[decls[fj][1].name]._get())
                if now != was:
                    problems.append(('shared-state', f'mutating the value read from o{o}.a{fi} changed o{oi}.a{fj}: {was} -> {now}'))
        if ws[0] in ('write', 'writenone', 'writefresh', 'del', 'mutate'):
            touched.add((o, fi))
        trigger = 'shared-explicit-mutable-default' if kind == 'list-explicit' else 'none'
        for (clause, detail) in problems[:1]:
            ctx.violate({'clause': clause, 'trigger': trigger}, f'{clause}: {detail}',
                        {'declarations': desc, 'objects': nobj, 'ops': done[:], 'detail': detail, 'with_shared': with_shared, 'history': h})
        if problems:
            break
    ctx.traces += 1
    if h < 2 and not with_shared:
        ctx.sample({'declarations': desc, 'ops': ops[:10]})



def bulk_reject_pass(ctx):
    """a never-set many-valued attribute still reads as the empty collection (eIsSet false, nothing to save) after a bulk
    operation on it was rejected — whatever part of the batch came before the ill-typed element"""
    from pyecore import ecore as E
    n = 60 if ctx.quick() else 1200
    for h in range(n):
        rng = common.sub_rng(ctx.seed, 'C15', 'bulk', h)
        A = E.EClass('A')
        t = rng.choice([E.EString, E.EInt])
        unique, ordered = rng.random() < .6, rng.random() < .8
        f = E.EAttribute('vals', t, upper=-1, unique=unique, ordered=ordered)
        A.eStructuralFeatures.append(f)
        good = ['x', 'y', 'z'] if t is E.EString else [1, 2, 3]
        bad = 3 if t is E.EString else 'three'
        k = rng.randint(0, 3)
        batch = good[:k] + [bad] + good[k:k + rng.randint(0, 1)]
        for how in ('extend', 'iadd', 'update', 'assign', 'slice'):
            x = A()
            coll = x.vals
            raised = None
            try:
                if how == 'extend':
                    coll.extend(batch)
                elif how == 'iadd':
                    coll += batch
                elif how == 'update':
                    if not hasattr(coll, 'update'):
                        continue
                    coll.update(batch)
                elif how == 'assign':
                    x.vals = batch
                else:
                    coll[0:0] = batch
            except Exception as e:
                raised = type(e).__name__
            ctx.evaluations += 1
            ctx.count(f'bulk/{how}/' + ('rejected' if raised else 'accepted'))
            if raised is None:
                continue
            ctx.nontriv(('bulk', h, how))
            now = list(x.vals)
            if now or x.eIsSet(f):
                ctx.violate({'clause': 'default-after-rejected-bulk', 'trigger': 'none'},
                            f'never-set many-valued attribute ({t.name}, unique={unique}) after a rejected {how}({batch!r}) ({raised}): '
                            f'reads {now!r}, eIsSet {x.eIsSet(f)}',
                            {'bulk': True, 'case': h, 'how': how, 'batch': repr(batch), 'type': t.name, 'unique': unique})
                return


def single_reject_pass(ctx):
    """a never-set single-valued feature is still never set after a write to it was refused: it reads as its default,
    eIsSet is false and a save writes what it wrote before — whatever the type and the path of the refused write"""
    import io
    from pyecore import ecore as E
    from pyecore.resources import ResourceSet, URI
    from pyecore.resources.xmi import XMIResource, XMIOptions
    from pyecore.resources.json import JsonResource, JsonOptions
    n = 40 if ctx.quick() else 600
    for h in range(n):
        rng = common.sub_rng(ctx.seed, 'C15', 'single-reject', h)
        pk = E.EPackage('p', 'http://verif/c15r', 'p')
        A, Other = E.EClass('A'), E.EClass('Other')
        En = E.EEnum('En', literals=['RED', 'GREEN'])
        pk.eClassifiers.extend([A, Other, En])
        decl = {'count': (E.EAttribute('count', E.EInt), 'seven'), 'name': (E.EAttribute('name', E.EString), 7),
                'flag': (E.EAttribute('flag', E.EBoolean), 'yes'), 'color': (E.EAttribute('color', En), 'BLUE'),
                'lit': (E.EAttribute('lit', E.EInt, defaultValueLiteral='5'), 1.5),
                'friend': (E.EReference('friend', A), None), 'kid': (E.EReference('kid', A, containment=True), None)}
        A.eStructuralFeatures.extend([d[0] for d in decl.values()])
        a, bystander = A(), A()
        fname = rng.choice(list(decl))
        f, bad = decl[fname]
        if bad is None:
            bad = Other()
        how = rng.choice(['attr', 'eSet-name', 'eSet-feature', 'Set-command'])

        def saved(x):
            out = []
            for cls, opts in ((XMIResource, {XMIOptions.SERIALIZE_DEFAULT_VALUES: True}), (XMIResource, None),
                              (JsonResource, {JsonOptions.SERIALIZE_DEFAULT_VALUES: True})):
                r = cls(URI('mem'))
                r.append(x)
                buf = io.BytesIO()
                r.save(output=_Out(buf), options=opts)
                out.append(buf.getvalue())
                r.remove(x)
            return out
        # every other case: what a never-set feature reads and writes is learnt from a *twin* object, so that the refused
        # write is the very first thing that ever touches the feature on `a`
        first_touch = h % 2 == 1
        before = saved(bystander if first_touch else a)
        default = (bystander if first_touch else a).eGet(f)
        raised = None
        try:
            if how == 'attr':
                setattr(a, fname, bad)
            elif how == 'eSet-name':
                a.eSet(fname, bad)
            elif how == 'eSet-feature':
                a.eSet(f, bad)
            else:
                from pyecore.commands import Set, CommandStack
                CommandStack().execute(Set(a, fname, bad))
        except Exception as e:
            raised = type(e).__name__
        ctx.evaluations += 1
        ctx.count(f'single-reject/{how}')
        if raised is None:
            continue      # (C03's business)
        ctx.nontriv(('single-reject', h))
        problems = []
        if a.eIsSet(f):
            problems.append('eIsSet is now true')
        now = a.eGet(f)
        if not (now is default or now == default):
            problems.append(f'it reads {now!r}, the default is {default!r}')
        if before is not None:
            try:
                after = saved(a)
            except Exception as e:
                after = f'save raised {type(e).__name__}'
            if after != before:
                problems.append('a save writes something else than before the refused write')
        if problems:
            ctx.violate({'clause': 'default-after-rejected-write', 'trigger': 'none'},
                        f'never-set {fname} after a refused write ({how}, {raised}{", the first access to the feature" if first_touch else ""}): ' + '; '.join(problems),
                        {'single_reject': True, 'case': h, 'feature': fname, 'how': how})
            return


def _Out(buf):
    """an output URI over a buffer"""
    from pyecore.resources import URI

    class Out(URI):
        def create_outstream(self):
            return buf

        def close_stream(self):
            pass
    buf.close = lambda: None
    return Out('mem-out')


def retype_pass(ctx):
    """the declared default of an attribute without literal and without explicit default is its *type's* default — the
    type it has now: retyped attributes, and enumerations whose default literal was changed after the attribute was
    declared"""
    from pyecore import ecore as E
    types = [E.EInt, E.EString, E.EBoolean, E.EDouble, E.EIntegerObject, E.EStringToStringMapEntry]
    n = 40 if ctx.quick() else 600
    for h in range(n):
        rng = common.sub_rng(ctx.seed, 'C15', 'retype', h)
        A = E.EClass('A')
        t1, t2 = rng.sample(types, 2)
        use_enum = rng.random() < .3
        En = E.EEnum('En', literals=['P', 'Q', 'R'])
        y = E.EAttribute('y', En if use_enum else t1)
        when = rng.choice(['before-join', 'after-join', 'after-instance'])
        old = None
        if when == 'before-join':
            pass
        else:
            A.eStructuralFeatures.append(y)
        if when == 'after-instance':
            old = A()
        if use_enum:
            En.default_value = En.getEEnumLiteral(rng.choice(['Q', 'R']))
            expect = En.default_value
            what = f'enum default changed to {expect}'
        else:
            y.eType = t2
            expect = t2.default_value
            what = f'retyped {t1.name} -> {t2.name}'
        if when == 'before-join':
            A.eStructuralFeatures.append(y)
        fresh = A()
        ctx.evaluations += 1
        ctx.count(f'retype/{when}')
        ctx.nontriv(('retype', h))
        problems = []
        try:
            got = fresh.y
            if not (got is expect or (got == expect and type(got) is type(expect))):
                problems.append(f'a fresh instance reads {got!r}, the type default is {expect!r}')
            if fresh.eIsSet('y'):
                problems.append('reading set the feature')
            if not use_enum and t2 is not E.EStringToStringMapEntry:
                fresh.y = {E.EInt: 3, E.EString: 's', E.EBoolean: True, E.EDouble: 1.5, E.EIntegerObject: 4}[t2]
                del fresh.y
                got = fresh.y
                if not (got is expect or got == expect):
                    problems.append(f'after del it reads {got!r}')
        except Exception as e:
            problems.append(f'raised {type(e).__name__}: {e}')
        if problems:
            ctx.violate({'clause': 'default-of-current-type', 'trigger': 'none'}, f'{what} ({when}): ' + '; '.join(problems),
                        {'retype': True, 'case': h, 'what': what, 'when': when})
            return


def literal_default_pass(ctx):
    """a default given as a literal of a user data type whose from_string builds a mutable value (a list written '1,2,3',
    a dict written as JSON): every object reads its own; changing one in place changes neither what another object reads,
    nor what a later object starts with, nor what del restores, nor what the declaration says"""
    import json as _json
    from pyecore import ecore as E
    kinds = [('list', '1,2,3', lambda s: s.split(','), lambda v: ','.join(v), lambda v: v.append('x')),
             ('dict', '{"a": 1}', _json.loads, _json.dumps, lambda v: v.__setitem__('b', 2)),
             ('bytearray', '0102', bytearray.fromhex, lambda v: v.hex(), lambda v: v.append(7))]
    for k in range(12 if ctx.quick() else 120):
        rng = common.sub_rng(ctx.seed, 'C15', 'literal-default', k)
        name, lit, frm, to, mutate = kinds[k % len(kinds)]
        T = E.EDataType('T' + name, {'list': list, 'dict': dict, 'bytearray': bytearray}[name], from_string=frm, to_string=to)
        A = E.EClass('A')
        f = E.EAttribute('w', T, defaultValueLiteral=lit)
        A.eStructuralFeatures.append(f)
        fresh = lambda: frm(lit)
        a, b = A(), A()
        if rng.random() < .5:
            _ = b.w                     # read before or after the other one is changed
        mutate(a.w)
        c = A()
        ctx.evaluations += 1
        ctx.count('literal-default/' + name)
        ctx.nontriv(('literal-default', k))
        problems = []
        if b.w != fresh():
            problems.append(f'another object reads {b.w!r}')
        if c.w != fresh():
            problems.append(f'an object created afterwards starts with {c.w!r}')
        if f.get_default_value() != fresh():
            problems.append(f'the declaration now says {f.get_default_value()!r}')
        del a.w
        if a.w != fresh():
            problems.append(f'del restores {a.w!r}')
        if b.eIsSet('w') or c.eIsSet('w'):
            problems.append('reading set the feature')
        if problems:
            ctx.violate({'clause': 'default-shared', 'trigger': 'none', 'literal': True},
                        f'default literal {lit!r} of a {name}-valued data type, one object changed in place: ' + '; '.join(problems),
                        {'literal_default': k, 'kind': name})
            return


def readd_pass(ctx):
    """a feature that leaves its class and comes back (the same declaration removed and added again, or a new one of the
    same name): on the instances that had set it, it has never been set — default, eIsSet false, nothing to save"""
    import io
    from pyecore import ecore as E
    from pyecore.resources import URI
    from pyecore.resources.xmi import XMIResource
    n = 30 if ctx.quick() else 400
    for h in range(n):
        rng = common.sub_rng(ctx.seed, 'C15', 'readd', h)
        pk = E.EPackage('p', 'http://verif/c15a', 'p')
        A = E.EClass('A')
        pk.eClassifiers.append(A)
        t, v = rng.choice([(E.EInt, 3), (E.EString, 's'), (E.EBoolean, True), (E.EDouble, 1.5)])
        many = rng.random() < .3
        x = E.EAttribute('x', t, upper=-1 if many else 1)
        A.eStructuralFeatures.append(x)
        a, b = A(), A()
        if many:
            a.x.append(v)
        else:
            a.x = v
        how = rng.choice(['remove', 'pop', 'discard', 'clear'])
        fs = A.eStructuralFeatures
        if how == 'remove':
            fs.remove(x)
        elif how == 'pop':
            fs.pop()
        elif how == 'discard':
            fs.discard(x)
        else:
            fs.clear()
        back = x if rng.random() < .6 else E.EAttribute('x', t, upper=-1 if many else 1)
        fs.append(back)
        ctx.evaluations += 1
        ctx.count(f'readd/{how}/' + ('same' if back is x else 'new'))
        ctx.nontriv(('readd', h))
        problems = []
        for name, o in (('the instance that had set it', a), ('another instance', b)):
            val = list(o.x) if many else o.x
            want = [] if many else back.get_default_value()
            if val != want:
                problems.append(f'{name} reads {val!r} (default {want!r})')
            if o.eIsSet('x'):
                problems.append(f'{name} reports eIsSet true')
        r = XMIResource(URI('mem'))
        r.append(a)
        buf = io.BytesIO()
        r.save(output=_Out(buf))
        if b' x=' in buf.getvalue() or b'<x>' in buf.getvalue():
            problems.append('a save writes the feature')
        if problems:
            ctx.violate({'clause': 'default-after-readd', 'trigger': 'none'},
                        f'{t.name}{"[*]" if many else ""} feature removed ({how}) and added again ({"the same declaration" if back is x else "a new one"}): '
                        + '; '.join(problems), {'readd': True, 'case': h})
            return


def builtin_objects_pass(ctx):
    """the objects of the metamodel level are objects too: two instances of every concrete built-in metaclass (EAnnotation,
    EClass, EPackage, EAttribute, ..., created the ways a user and the loaders create them); every attribute of theirs that
    starts out as a map or a collection is mutated through one instance — the other instance, and an instance created
    afterwards, read what they read before"""
    from pyecore import ecore as E
    makers = {
        'EAnnotation': [lambda: E.EAnnotation(), lambda: E.EAnnotation(source='s'), lambda: E.EAnnotation.eClass()],
        'EPackage': [lambda: E.EPackage('p'), lambda: E.EPackage()],
        'EClass': [lambda: E.EClass('C')],
        'EAttribute': [lambda: E.EAttribute('a', E.EString)],
        'EReference': [lambda: E.EReference('r', E.EClass('T'))],
        'EOperation': [lambda: E.EOperation('op')],
        'EParameter': [lambda: E.EParameter('p')],
        'EEnum': [lambda: E.EEnum('En')],
        'EEnumLiteral': [lambda: E.EEnumLiteral('L')],
        'EDataType': [lambda: E.EDataType('D')],
        'ETypeParameter': [lambda: E.ETypeParameter('T')],
        'EGenericType': [lambda: E.EGenericType()],
        'EStringToStringMapEntry': [lambda: E.EStringToStringMapEntry()],
    }
    for name, ways in sorted(makers.items()):
        for wi, make in enumerate(ways):
            try:
                a, b = make(), make()
            except Exception as e:
                ctx.count(f'builtin/{name}/cannot-create/{type(e).__name__}')
                continue
            for f in sorted(a.eClass.eAllAttributes(), key=lambda f: f.name):
                try:
                    va, vb = a.eGet(f), b.eGet(f)
                except Exception:
                    continue
                if isinstance(va, dict):
                    before = dict(vb)
                    va['verif-key'] = 'v'
                    fresh = make().eGet(f)
                    others = {'the other instance': (dict(b.eGet(f)), before), 'an instance created afterwards': (dict(fresh), before)}
                elif hasattr(va, 'append') and not isinstance(va, (str, bytes)):
                    before = list(vb)
                    try:
                        va.append('verif-value')
                    except Exception:
                        continue
                    fresh = make().eGet(f)
                    others = {'the other instance': (list(b.eGet(f)), before), 'an instance created afterwards': (list(fresh), before)}
                else:
                    continue
                ctx.evaluations += 1
                ctx.nontriv(('builtin', name, wi, f.name))
                ctx.count(f'builtin/{name}.{f.name}')
                for who, (now, was) in others.items():
                    if now != was:
                        ctx.violate({'clause': 'shared-state', 'builtin': name, 'feature': f.name},
                                    f'{name}.{f.name} (instances created the {wi + 1}. way): changed through one instance, '
                                    f'{who} reads {now!r} instead of {was!r}', {'builtin': name, 'feature': f.name, 'way': wi})
                        return


def far_end_pass(ctx):
    """`eIsSet` false is the state of a feature that reads as its default — also for the end of a bidirectional reference
    that was written by the handshake, not by the caller: after every way of pairing two objects (assignment from either
    side, append / insert / extend / add on a many-valued side, constructor keyword, eSet), an end that reports eIsSet false
    reads None / an empty collection; un-pairing again leaves both ends reading their default"""
    from pyecore import ecore as E
    shapes = [('one-one', 1, 1), ('many-one', -1, 1), ('one-many', 1, -1), ('many-many', -1, -1), ('self', 1, 1)]
    for shape, up_a, up_b in shapes:
        for cont in (False, True):
            if cont and shape in ('self', 'many-many', 'one-many'):
                continue
            A, B = E.EClass('A'), E.EClass('B')
            if shape == 'self':
                B = A
            ra = E.EReference('fwd', B, upper=up_a, containment=cont)
            rb = E.EReference('back', A, upper=up_b)
            A.eStructuralFeatures.append(ra); B.eStructuralFeatures.append(rb)
            rb.eOpposite = ra
            ways = ['assign', 'eset', 'ctor'] if up_a == 1 else ['append', 'insert', 'extend', 'add', 'iadd', 'assign-list']
            for way in ways:
                a, b = A(), B()
                try:
                    if way == 'assign':
                        a.fwd = b
                    elif way == 'eset':
                        a.eSet('fwd', b)
                    elif way == 'ctor':
                        a = A(fwd=b)
                    elif way == 'append':
                        a.fwd.append(b)
                    elif way == 'insert':
                        a.fwd.insert(0, b)
                    elif way == 'extend':
                        a.fwd.extend([b])
                    elif way == 'add':
                        a.fwd.add(b) if hasattr(a.fwd, 'add') else a.fwd.append(b)
                    elif way == 'iadd':
                        c = a.fwd; c += [b]
                    else:
                        a.fwd = [b]
                except Exception as e:
                    ctx.count(f'far-end/{shape}/{way}/raised-{type(e).__name__}')
                    continue
                ctx.evaluations += 1
                ctx.nontriv(('far-end', shape, cont, way))
                ctx.count(f'far-end/{shape}')
                for who, o, f in (('the end written by the caller', a, ra), ('the other end', b, rb)):
                    v = o.eGet(f)
                    empty = (len(v) == 0) if f.many else (v is None)
                    if not o.eIsSet(f) and not empty:
                        ctx.violate({'clause': 'unset-reads-non-default', 'feature': 'reference-end'},
                                    f'{shape}{" containment" if cont else ""}, paired by {way}: {who} ({f.name}) reports eIsSet false but reads '
                                    f'{"its partner" if not f.many else "a collection of " + str(len(v))} instead of its default',
                                    {'shape': shape, 'way': way, 'containment': cont})
                        return


def run(ctx):
    common.use_repo()
    n = 500 if ctx.quick() else 8000
    nops = 14 if ctx.quick() else 24
    ctx.rule = (f'{n} cases: 3-5 attribute declarations over built-in and user data types (map-typed, list-typed with factory, ints '
                'with default literal / explicit default / type default / None) on 2-3 instances, <= {nops} interleaved reads, writes, '
                'deletes, in-place mutations; the `src` table given to the model is read off the real declarations on every run '
                '(get_default_value() probed twice); + n/5 cases with an explicit mutable default_value (recorded finding). '
                'non-trivial & distinct = (case, step) of an in-place mutation').replace('{nops}', str(nops))
    model_in, expect = [], []
    for h in range(n):
        run_case(ctx, h, False, model_in, expect, nops)
    for h in range(n // 5):
        run_case(ctx, h, True, model_in, expect, nops)
    bulk_reject_pass(ctx)
    single_reject_pass(ctx)
    retype_pass(ctx)
    readd_pass(ctx)
    literal_default_pass(ctx)
    builtin_objects_pass(ctx)
    far_end_pass(ctx)
    out = common.run_driver('dflt', model_in)
    bad = set()
    for line, exp, got in zip(model_in, expect, out):
        if exp is None:
            continue
        h, desc, ops, want = exp
        if got != want and (h, tuple(desc)) not in bad:
            bad.add((h, tuple(desc)))
            if len(ctx.divergences) < 20:
                ctx.diverge(f'case {h} `{line}`: model `{got}` vs implementation `{want}`', {'declarations': desc, 'ops': ops})
    ctx.table_obligations = 1      # NoShared on the regenerated `src` tables (hypothesis of C15_private)
    if ctx.extra.get('noshared_table_failures'):
        ctx.diverge('NoShared fails on the regenerated default table: ' + ', '.join(sorted(set(ctx.extra['noshared_table_failures']))[:5]),
                    {'obligation': 'NoShared src (hypothesis of C15_private / C15_private_reachable)'})
    ctx.assumptions += ['single-valued attributes; many-valued features start as empty collections owned by the holder (checked under C04/C03)',
                        'a value written by the caller is a fresh object (sharing one Python object between two features on purpose is the caller\'s choice)']


def search(ctx):
    model_in, expect = [], []
    for h in range(20000, 23000):
        run_case(ctx, h, False, model_in, expect, 30)
        if ctx.violations:
            return


def replay(ctx, data):
    common.use_repo()
    r = data['replay']
    if 'history' not in r:                      # reported by one of the fixed passes: run them again
        c2 = common.Ctx('C15', data['tier'], data['seed'])
        for p in (bulk_reject_pass, single_reject_pass, retype_pass, readd_pass, literal_default_pass, builtin_objects_pass, far_end_pass):
            p(c2)
        for v in c2.violations[:5]:
            print('  ', v['what'])
        return 1 if c2.violations else 0
    rng = common.sub_rng(data['seed'], 'C15', r['history'], r['with_shared'])
    decls = declarations(rng, r['with_shared'])
    impl = Impl(decls, r['objects'])
    for l in r['ops']:
        print(f'  {l:<16} -> {impl.apply(l)}')
    print('  reported:', data['what'])
    return 1
