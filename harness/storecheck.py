"""Shared runner of the Store properties (C01 C02 C03 …): histories on the real code with the property's oracle,
the same histories on the Lean model through the driver, comparison on the property's projection, shrinking."""
import re
from . import common, store, histories, oracles

SHAPES = [(mf, mg, of, og, c) for mf in (0, 1) for mg in (0, 1) for of in (0, 1) for og in (0, 1) for c in (0, 1)
          if not (c and mg)]


def shape_mm(rng, k):
    """metamodel number k of the enumeration of opposite-pair shapes, plus a little random context"""
    mf, mg, of, og, c = SHAPES[k % len(SHAPES)]
    same = (k // len(SHAPES)) % 2 == 0
    mm = store.MMDesc()
    mm.classes += [(0, False, []), (1, False, [])]
    if rng.random() < .4:
        mm.classes.append((2, False, [rng.choice([0, 1])]))
    a, b = (0, 0) if same else (0, 1)
    mm.add_pair(a, b, bool(mf), bool(mg), bool(of), bool(og), bool(c))
    extra = rng.random()
    if extra < .35:
        mm.add_feat(owner=rng.choice([a, b]), name='', ref=True, many=rng.random() < .5, ordered=True, unique=True,
                    cont=True, typ=('cls', rng.choice([a, b])))
    elif extra < .6:
        mm.add_pair(b, a, rng.random() < .5, rng.random() < .5, True, True, False)
    if rng.random() < .5:
        mm.add_feat(owner=a, name='', ref=False, many=rng.random() < .5, ordered=True, unique=rng.random() < .5,
                    cont=False, typ=('dt', rng.choice(store.DTYPES)))
    store.add_falsy(rng, mm)
    return mm


DUMP_OBJ = re.compile(r'o(\d+)\[(.*?) ?c=(\S+) r=(\S+)\]')
DUMP_RES = re.compile(r'r(\d+)\[([\d,]*)\]')


def parse_dump(d):
    objs = {}
    for m in DUMP_OBJ.finditer(d):
        feats = {}
        for kv in m.group(2).split():
            k, _, v = kv.partition('=')
            feats[int(k[1:])] = v
        objs[int(m.group(1))] = (feats, m.group(3), m.group(4))
    res = {int(m.group(1)): m.group(2) for m in DUMP_RES.finditer(d)}
    return objs, res


def project(prop, mm, rec):
    """the part of a record `ok x | dump` the property observes"""
    out, _, d = rec.partition(' | ')
    objs, res = parse_dump(d)
    outcome = 'err' if out.startswith('err') else 'ok'
    if prop == 'C01':
        refs = {(o, f): v for o, (fs, _, _) in objs.items() for f, v in fs.items() if mm.feats[f].ref}
        return outcome, sorted(refs.items())
    if prop == 'C02':
        view = {o: (c, r, sorted((f, v) for f, v in fs.items() if mm.feats[f].ref and mm.feats[f].cont))
                for o, (fs, c, r) in objs.items()}
        return outcome, sorted(view.items()), sorted(res.items())
    if prop == 'C03':
        kind = out if out == 'err BadValueError' else outcome
        return kind, d
    return out, d


def history_rng(ctx, name, h):
    return common.sub_rng(ctx.seed, ctx.prop, name, h)


def gen_and_run(ctx, h, nops, checks, profile):
    rng = history_rng(ctx, 'hist', h)
    if h % 3 == 0:
        mm = shape_mm(rng, h // 3)
    else:
        mm = store.gen_mm(rng, profile)
    return mm, histories.run_history(rng, mm, nops, triggers=False, checks=checks)


def replay_lines(mm, lines, checks):
    """run fixed lines on the real code with the oracles (no generator) -> (world, recs, problems)"""
    w = store.World(mm)
    recs, problems = [], []
    for step, line in enumerate(lines):
        conf = histories.op_conforming(w, line) if 'c03' in checks else None
        before = w.dump()
        ovb = oracles.owner_view(w) if 'c02' in checks else None
        try:
            rec = w.apply(line)
        except Exception as e:   # malformed line after shrinking (object that no longer exists, …)
            rec = 'err Harness'
        after = w.dump()
        recs.append((rec, after, list(w.notifs)))
        ps = histories.judge(w, line, rec, before, after, ovb, conf, checks)
        if ps:
            problems = [(step, line) + p for p in ps]
            break
    return w, recs, problems


def shrink(mm, lines, checks, clause):
    """greedy one-at-a-time deletion keeping a violation of the same clause"""
    cur = list(lines)
    i = len(cur) - 2
    while i >= 0:
        cand = cur[:i] + cur[i + 1:]
        if cand and not cand[i - 1 if i else 0].startswith('mm'):
            try:
                _, _, ps = replay_lines(mm, cand, checks)
            except Exception:
                ps = []
            if ps and ps[0][3] == clause:
                cur = cand[:ps[0][0] + 1]
                i = min(i, len(cur) - 1)
        i -= 1
    return cur


def run(ctx, checks, profile='mixed', nq=1200, nt=15000, opsq=25, opst=40, signature=None):
    common.use_repo()
    n = nq if ctx.quick() else nt
    nops = opsq if ctx.quick() else opst
    ctx.rule = (f'{n} generated histories x <= {nops} public mutations on the real pyecore; one third of the metamodels enumerate '
                f'the {len(SHAPES)} well-formed opposite-pair shapes ({{single,many}}^2 x ordered^2 x containment) on one or two classes, '
                'the others are random well-formed metamodels (2-3 classes, inheritance, 1-2 opposite pairs, containment with/without '
                'opposite, plain references, attributes); operands are chosen looking at the live state so that re-assignment, '
                'stealing, moves between owners, failing calls are frequent. non-trivial & distinct = distinct '
                '(feature shape, operation kind, changed-or-raised, value-had-owner-or-partner) classes actually executed')
    model_in, expect = [], []
    for h in range(n):
        mm, (w, lines, recs, problems) = gen_and_run(ctx, h, nops, checks, profile)
        ctx.evaluations += len(lines)
        ctx.traces += 1
        model_in.append('reset'); expect.append(None)
        for l in w.mm_lines():
            model_in.append(l); expect.append(None)
        prev = ''
        for l, (rec, dump, notifs) in zip(lines, recs):
            model_in.append(l)
            expect.append((h, mm, lines, rec + ' | ' + dump))
            ws = l.split()
            ctx.count('op/' + ws[0])
            if rec.startswith('err'):
                ctx.count('raised/' + rec.split()[1])
            if len(ws) > 2 and ws[0] not in ('new', 'res', 'rappend', 'rremove', 'delete'):
                f = mm.feats[int(ws[2])]
                ctx.count('shape/' + '-'.join(f.shape()) + ('-opp' if f.opp is not None else ''))
                ctx.nontriv((f.shape(), f.opp is not None and mm.feats[f.opp].shape(), ws[0],
                             rec.startswith('err'), dump != prev))
            prev = dump
        if h < 3:
            ctx.sample({'metamodel': w.mm_lines(), 'ops': lines[:12], 'last_record': recs[-1][0] + ' | ' + recs[-1][1]})
        for p in problems[:1]:
            step, line, prop, clause, detail, extra = p
            if prop != ctx.prop:
                continue
            small = shrink(mm, lines[:step + 1], checks, clause)
            sig = {'clause': clause, 'op': small[-1].split()[0]}
            if signature:
                sig.update(signature(mm, small, p))
            ctx.violate(sig, f'{clause}: {detail} (after `{small[-1]}`)',
                        {'metamodel': w.mm_lines(), 'ops': small, 'detail': detail, 'history': h})
    out = common.run_driver('store', model_in)
    seen = set()
    for line, exp, got in zip(model_in, expect, out):
        if exp is None:
            continue
        h, mm, lines, want = exp
        if h in seen:
            continue
        if project(ctx.prop, mm, got) != project(ctx.prop, mm, want):
            seen.add(h)
            ctx.diverge(f'history {h} op `{line}`: model `{got[:300]}` vs implementation `{want[:300]}`',
                        {'history': h, 'op': line, 'ops': lines, 'metamodel': mm.lines()})
    ctx.assumptions += [
        'metamodels are well-formed Ecore (MM.WF): opposites mutual, ends of bidirectional/containment references unique, opposite of a containment single-valued',
        'no containment cycle is requested; None is not offered to a many-valued feature; a list-like (many, non-unique) reference is not offered a value it already holds',
        'objects are only addressed through features their class has',
    ]


def search(ctx, checks, profile='mixed'):
    """extended failing-input search on the real code only (fresh batch, longer histories)"""
    for h in range(3000):
        rng = history_rng(ctx, 'search', h)
        mm = shape_mm(rng, h) if h % 2 == 0 else store.gen_mm(rng, profile)
        w, lines, recs, problems = histories.run_history(rng, mm, 60, triggers=False, checks=checks)
        ctx.evaluations += len(lines)
        for p in problems[:1]:
            step, line, prop, clause, detail, extra = p
            if prop != ctx.prop:
                continue
            small = shrink(mm, lines[:step + 1], checks, clause)
            ctx.violate({'clause': clause, 'op': small[-1].split()[0]}, f'{clause}: {detail} (after `{small[-1]}`)',
                        {'metamodel': w.mm_lines(), 'ops': small, 'detail': detail})
            return


def replay(ctx, data, checks):
    common.use_repo()
    r = data['replay']
    mm = mm_from_lines(r['metamodel'])
    w, recs, problems = replay_lines(mm, r['ops'], checks)
    for l, (rec, dump, _) in zip(r['ops'], recs):
        print(f'  {l:<26} -> {rec} | {dump}')
    for p in problems:
        print('  ORACLE:', p[2:])
    return 1 if problems else 0


def mm_from_lines(lines):
    mm = store.MMDesc()
    for l in lines:
        ws = l.split()
        if ws[:2] == ['mm', 'class']:
            kv = dict(w.split('=') for w in ws[3:])
            sup = [] if kv['supers'] == '-' else [int(x) for x in kv['supers'].split(',')]
            mm.classes.append((int(ws[2]), kv['abstract'] == '1', sup))
            if kv.get('falsy') == '1':
                mm.falsy.add(int(ws[2]))
        elif ws[:2] == ['mm', 'feat']:
            kv = dict(w.split('=', 1) for w in ws[3:])
            t = kv['type'].split(':')
            f = store.Feat(int(ws[2]), int(kv['owner']), f'f{ws[2]}', kv['ref'] == '1', kv['many'] == '1',
                           kv['ordered'] == '1', kv['unique'] == '1', kv['cont'] == '1',
                           ('cls', int(t[1])) if t[0] == 'cls' else ('dt', t[1]),
                           None if kv['opp'] == '-' else int(kv['opp']))
            f.volatile = kv.get('volatile') == '1'
            mm.feats.append(f)
    return mm
