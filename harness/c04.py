"""C04 — multi-valued features behave like the collection they declare.

Correspondence: the Lean model `Py.OSet` / `Py.listStep` (driver protocol `oset`) against the real
EOrderedSet / EList / ESet / EBag of an EObject, exhaustively over small states x every operation x every
index in a window around the bounds, plus random long histories.
Oracle (independent of the model): a shadow Python list.
"""
import itertools
from . import common

CONFIGS = [(o, u, k) for o in (True, False) for u in (True, False) for k in ('attr', 'ref')] + \
    [(o, True, k) for o in (True, False) for k in ('cont', 'opp')]     # containment / bidirectional ends are unique
_mm = {}


def metamodel():
    if _mm:
        return _mm
    from pyecore.ecore import EClass, EAttribute, EReference, EInt
    A = EClass('A')
    B = EClass('B')
    for (o, u, k) in CONFIGS:
        name = f"{'o' if o else 'n'}{'u' if u else 'd'}_{k}"
        if k == 'attr':
            A.eStructuralFeatures.append(EAttribute(name, EInt, upper=-1, ordered=o, unique=u))
        elif k == 'ref':
            A.eStructuralFeatures.append(EReference(name, B, upper=-1, ordered=o, unique=u))
        elif k == 'cont':
            A.eStructuralFeatures.append(EReference(name, B, upper=-1, ordered=o, unique=u, containment=True))
        else:
            r = EReference(name, B, upper=-1, ordered=o, unique=u)
            A.eStructuralFeatures.append(r)
            back = EReference('back_' + name, A, eOpposite=r)
            B.eStructuralFeatures.append(back)
    _mm.update(A=A, B=B)
    return _mm


def feat_name(cfg):
    o, u, k = cfg
    return f"{'o' if o else 'n'}{'u' if u else 'd'}_{k}"


BASE = 10 ** 9


class _Fresh:
    """attribute values: every time one is asked for, a new object that compares equal to the stored one without being
    it (what a parsed or computed int, float, date or string is) — `remove(x)`, `index(x)`, `x in c` go by equality"""

    def __init__(self, n):
        self.n = n

    def __getitem__(self, x):
        if not 0 <= x < self.n:
            raise IndexError(x)
        return int(str(BASE + x))

    def __iter__(self):
        return (self[x] for x in range(self.n))

    def index(self, e):
        return e - BASE


class Impl:
    """Runs protocol lines on a real collection; emits the same records as the Lean driver and runs the oracle."""

    def __init__(self, cfg, univ):
        mm = metamodel()
        self.cfg = cfg
        self.unique = cfg[1]
        self.univ = univ
        self.elems = _Fresh(univ) if cfg[2] == 'attr' else [mm['B']() for _ in range(univ)]
        self.owner = mm['A']()
        self.c = getattr(self.owner, feat_name(cfg))
        self.shadow = []
        self.problems = []

    def num(self, e):
        return self.elems.index(e) if not isinstance(e, int) or e >= BASE else e

    def observe(self):
        c = self.c
        items = [self.num(e) for e in c]
        n = len(items)
        idx, mem = [], []
        for x in self.elems:
            try:
                idx.append(str(c.index(x)))
            except (KeyError, ValueError):
                idx.append('-')
            mem.append('1' if x in c else '0')
        gets = []
        for i in range(-(n + 2), n + 3):
            try:
                gets.append(str(self.num(c[i])))
            except IndexError:
                gets.append('-')
        # reading a slice: the elements a list would give, in that order (a copy, never the collection itself)
        for a_, b_ in ((None, None), (1, None), (None, -1), (-2, n + 3), (n, 0)):
            try:
                part = [self.num(e) for e in c[a_:b_]]
            except Exception as e:
                part = f'raised {type(e).__name__}'
            if part != items[a_:b_]:
                self.problems.append(('get-slice', f'c[{a_}:{b_}]', f'{part} where a list gives {items[a_:b_]}'))
        return items, (f"items={','.join(map(str, items))} len={len(c)} idx={','.join(idx)} "
                       f"in={''.join(mem)} get={','.join(gets)}")

    def apply(self, line):
        ws = line.split()
        c, E = self.c, self.elems
        op = ws[0]
        judged = True      # whether the shadow list is an authority for this call
        sh = self.shadow
        try:
            exp = None
            if op == 'add':
                x = int(ws[1])
                if not (self.unique and x in sh):
                    sh.append(x)
                r = c.append(E[x]); r = None
            elif op == 'insert':
                i, x = int(ws[1]), int(ws[2])
                if not (self.unique and x in sh):
                    sh.insert(i, x)
                c.insert(i, E[x]); r = None
            elif op == 'pop':
                i = int(ws[1])
                try:
                    exp = ('ok', sh.pop(i))
                except IndexError:
                    exp = ('err',)
                r = c.pop() if (i == -1 and len(line) % 2 == 0) else c.pop(i)
                r = self.num(r)
            elif op == 'remove':
                x = int(ws[1])
                try:
                    sh.remove(x); exp = ('ok', None)
                except ValueError:
                    exp = ('err',)
                c.remove(E[x]); r = None
            elif op == 'discard':
                x = int(ws[1])
                if x in sh:
                    sh.remove(x)
                c.discard(E[x]); r = None
            elif op == 'clear':
                sh.clear()
                c.clear(); r = None
            elif op == 'delall':
                # `del c[:]`, every declaration: the collection is emptied (the model's `clear`)
                sh.clear()
                del c[:]; r = None
            elif op == 'delslice':
                # `del c[a:b:k]` (a list's business: sets refuse slices); '-' is an omitted bound
                a_, b_, k_ = [None if t == '-' else int(t) for t in ws[1:4]]
                del sh[a_:b_:k_]
                del c[a_:b_:k_]; r = None
            elif op == 'extend':
                xs = [int(t) for t in ws[1:]]
                for x in xs:
                    if not (self.unique and x in sh):
                        sh.append(x)
                how = (len(sh) + len(xs)) % 3
                vals = [E[x] for x in xs]
                if how == 0:
                    c.extend(vals)
                elif how == 1:
                    c += vals
                elif hasattr(c, 'update'):
                    c.update(vals)
                else:
                    c.extend(iter(vals))
                r = None
            elif op == 'setitem':
                i, x = int(ws[1]), int(ws[2])
                if self.unique:
                    judged = False
                else:
                    try:
                        sh[i] = x; exp = ('ok', None)
                    except IndexError:
                        exp = ('err',)
                c[i] = E[x]; r = None
            elif op == 'delitem':
                i = int(ws[1])
                try:
                    del sh[i]; exp = ('ok', None)
                except IndexError:
                    exp = ('err',)
                del c[i]; r = None
            else:
                return 'bad-op'
            out = ('ok', r)
        except (KeyError, IndexError, ValueError) as e:
            out = ('err',)
        items, obs = self.observe()
        # ---- oracle: the shadow list ------------------------------------------------------------
        if not judged:
            self.shadow = sh = list(items)
        if exp is not None and judged:
            if exp[0] != out[0] or (exp[0] == 'ok' and op == 'pop' and exp[1] != out[1]):
                self.problems.append(('outcome', op, f'list: {exp}, collection: {out}'))
        if items != sh:
            self.problems.append(('contents', op, f'list: {sh}, collection: {items}'))
            self.shadow = sh = list(items)
        if self.unique and len(set(items)) != len(items):
            self.problems.append(('duplicate', op, f'{items}'))
        c = self.c
        if len(c) != len(sh):
            self.problems.append(('len', op, f'{len(c)} vs {len(sh)}'))
        for x in range(self.univ):
            try:
                got = c.index(self.elems[x])
            except (KeyError, ValueError):
                got = None
            want = sh.index(x) if x in sh else None
            if got != want:
                self.problems.append(('index', op, f'index({x}) = {got}, iteration position {want} in {sh}'))
            if (self.elems[x] in c) != (x in sh):
                self.problems.append(('membership', op, f'{x} in c = {self.elems[x] in c}, list {sh}'))
        for i in range(-(len(sh) + 2), len(sh) + 3):
            try:
                want = ('ok', sh[i])
            except IndexError:
                want = ('err',)
            try:
                got = ('ok', self.num(c[i]))
            except IndexError:
                got = ('err',)
            if got != want:
                self.problems.append(('getitem', op, f'c[{i}] = {got}, list {want}'))
        return ('ok ' + ('-' if out[1] is None else str(out[1])) if out[0] == 'ok' else 'err') + ' ' + obs


def norm_model(rec):
    # only *whether* a call raises is compared, not the exception class (DESIGN 5.4)
    if rec.startswith('err '):
        return 'err ' + rec.split(' ', 2)[2]
    return rec


def all_ops(n, univ, unique):
    W = range(-(n + 3), n + 4)
    ops = [f'add {x}' for x in range(univ)]
    ops += [f'insert {i} {x}' for i in W for x in range(univ)]
    ops += [f'pop {i}' for i in W]
    ops += [f'remove {x}' for x in range(univ)]
    if unique:
        ops += [f'discard {x}' for x in range(univ)]
    ops += ['clear', 'delall']
    # bulk additions: nothing, new elements, elements already there, the same new element twice in one batch
    ops += ['extend'] + [f'extend {x}' for x in range(univ)] + [f'extend {x} {y}' for x in range(univ) for y in range(univ)]
    ops += [f'extend {x} {(x + 1) % univ} {x}' for x in range(univ)]
    ops += [f'setitem {i} {x}' for i in W for x in range(univ)]
    ops += [f'delitem {i}' for i in W]
    if not unique:
        # slice deletion, plain and extended, forwards and backwards, with and without bounds
        B = ['-'] + [str(i) for i in range(-(n + 1), n + 2)]
        ops += [f'delslice {a} {b} {k}' for a in B for b in B for k in (1, 2, -1, -2, 3)]
    return ops


def states(univ, maxlen, unique):
    for n in range(maxlen + 1):
        if unique:
            yield from itertools.permutations(range(univ), n)
        else:
            yield from itertools.product(range(univ), repeat=n)


def random_op(rng, n, univ, unique):
    k = rng.random()
    i = rng.randint(-(n + 3), n + 3)
    x = rng.randrange(univ)
    if k < 0.2:
        return f'add {x}'
    if k < 0.4:
        return f'insert {i} {x}'
    if k < 0.55:
        return f'pop {rng.choice([i, -1, -1, 0])}'
    if k < 0.65:
        return f'remove {x}'
    if k < 0.7 and unique:
        return f'discard {x}'
    if k < 0.73:
        return 'clear'
    if k < 0.8:
        return 'extend ' + ' '.join(str(rng.randrange(univ)) for _ in range(rng.randint(0, 4)))
    if k < 0.84 and not unique:
        bd = lambda: rng.choice(['-', str(rng.randint(-(n + 2), n + 2))])
        return f'delslice {bd()} {bd()} {rng.choice([1, 2, 3, -1, -2, -3])}'
    if k < 0.9:
        return f'setitem {i} {x}'
    return f'delitem {i}'


def build_cases(ctx, rng):
    quick = ctx.quick()
    univ = 3 if quick else 4
    maxlen = 3 if quick else 4
    cases = []   # (cfg, univ, lines, kind)
    for cfg in CONFIGS:
        unique = cfg[1]
        for st in states(univ, maxlen if unique else maxlen - (0 if quick else 1), unique):
            prefix = [f'add {x}' for x in st]
            for op in all_ops(len(st), univ, unique):
                cases.append((cfg, univ, prefix + [op], 'exhaustive'))
    nhist = 120 if quick else 3000
    for h in range(nhist):
        cfg = CONFIGS[h % len(CONFIGS)]
        u = rng.choice([3, 4, 5])
        lines, n = [], 0
        for _ in range(rng.randint(10, 40)):
            lines.append(random_op(rng, min(n, u), u, cfg[1]))
            n += 1
        cases.append((cfg, u, lines, 'history'))
    return cases


def run_case(cfg, univ, lines):
    impl = Impl(cfg, univ)
    recs = []
    for l in lines:
        recs.append(impl.apply(l))
    return impl, recs


def proxy_back_pass(ctx):
    """a unique many-valued reference whose elements point back through a single-valued opposite — one of them through a
    resolved *proxy* of the owner (a followed cross-resource reference): adding an element the collection already holds
    changes nothing, as for any set-like collection"""
    from pyecore import ecore as E
    for k in range(12 if ctx.quick() else 120):
        rng = common.sub_rng(ctx.seed, 'C04', 'proxy-back', k)
        A, B = E.EClass('A'), E.EClass('B')
        refs = E.EReference('refs', B, upper=-1, ordered=k % 2 == 0)
        A.eStructuralFeatures.append(refs)
        B.eStructuralFeatures.append(E.EReference('back', A, eOpposite=refs))
        a = A()
        elems = [B() for _ in range(rng.randint(2, 4))]
        for i, e in enumerate(elems):
            if i % 2 == 0:
                e.back = E.EProxy(wrapped=a)
            else:
                a.refs.append(e)
        before = [elems.index(v) for v in a.refs]
        again = rng.choice(elems)
        how = rng.choice(['append', 'add', 'insert', 'extend'])
        ctx.evaluations += 1
        ctx.nontriv(('proxy-back', k))
        try:
            if how == 'append':
                a.refs.append(again)
            elif how == 'add':
                a.refs.add(again)
            elif how == 'insert':
                a.refs.insert(0, again)
            else:
                a.refs.extend([again])
        except Exception as e:
            how += f' raised {type(e).__name__}'
        after = [elems.index(v) for v in a.refs]
        if after != before:
            ctx.violate({'clause': 'no-dup', 'op': 'add', 'unique': True, 'ordered': bool(refs.ordered), 'proxy_back': True},
                        f'a unique collection {before} was given element {elems.index(again)} again ({how}; the elements point back, '
                        f'every second one through a proxy of the owner): it is now {after}', {'proxy_back': k})
            return


def redeclare_pass(ctx):
    """the declaration changes after the feature has been used: `unique` is flipped once an object holds values in it; an
    object created afterwards gets the collection the feature declares *now* — duplicates kept by a non-unique feature,
    ignored by a unique one"""
    from pyecore import ecore as E
    for k in range(12 if ctx.quick() else 120):
        rng = common.sub_rng(ctx.seed, 'C04', 'redeclare', k)
        A, B = E.EClass('A'), E.EClass('B')
        unique0 = k % 2 == 0
        ref = k % 4 >= 2
        f = (E.EReference('xs', B, upper=-1, unique=unique0) if ref else E.EAttribute('xs', E.EInt, upper=-1, unique=unique0))
        A.eStructuralFeatures.append(f)
        vals = [B() for _ in range(3)] if ref else [10 ** 6 + i for i in range(3)]
        old = A()
        old.xs.append(vals[0])
        f.unique = not unique0
        new = A()
        seq = [rng.choice(vals) for _ in range(rng.randint(3, 6))]
        seq.append(seq[0])
        for v in seq:
            new.xs.append(v)
        want = []
        for v in seq:
            if not (f.unique and any(w is v or (not ref and w == v) for w in want)):
                want.append(v)
        got = list(new.xs)
        ctx.evaluations += 1
        ctx.nontriv(('redeclare', k))
        if len(got) != len(want) or any((g is not w) if ref else (g != w) for g, w in zip(got, want)):
            ctx.violate({'clause': 'no-dup' if f.unique else 'list-spec', 'op': 'add', 'unique': bool(f.unique), 'redeclared': True},
                        f'a {"reference" if ref else "attribute"} declared unique={unique0}, used, then declared unique={f.unique}: an object created '
                        f'afterwards, given {len(seq)} values with repeats, holds {len(got)} where the declaration gives {len(want)}',
                        {'redeclare': k})
            return


def loaded_pass(ctx):
    """collections as a *load* leaves them: many-to-many references whose two ends are written in different orders (so that
    a loader has to put one of them back into document order), XMI and JSON: iteration order, `index`, item access and
    membership agree, and `remove(x)` takes out x"""
    import os, shutil, tempfile
    from pyecore import ecore as E
    from pyecore.resources import ResourceSet, URI
    from pyecore.resources.json import JsonResource
    tmp = tempfile.mkdtemp(prefix='verif_c04_')
    try:
        for k in range(16 if ctx.quick() else 200):
            rng = common.sub_rng(ctx.seed, 'C04', 'loaded', k)
            fmt = 'xmi' if k % 2 == 0 else 'json'
            pk = E.EPackage('lib', f'http://verif/c04/lib{k}', 'lib')
            Lib, Author, Book = E.EClass('Lib'), E.EClass('Author'), E.EClass('Book')
            pk.eClassifiers.extend([Lib, Author, Book])
            for c in (Author, Book):
                c.eStructuralFeatures.append(E.EAttribute('name', E.EString))
            books = E.EReference('books', Book, upper=-1)
            authors = E.EReference('authors', Author, upper=-1, eOpposite=books)
            Author.eStructuralFeatures.append(books); Book.eStructuralFeatures.append(authors)
            Lib.eStructuralFeatures.extend([E.EReference('as_', Author, upper=-1, containment=True),
                                            E.EReference('bs', Book, upper=-1, containment=True)])
            lib = Lib()
            As = [Author(name=f'a{i}') for i in range(rng.randint(2, 4))]
            Bs = [Book(name=f'b{i}') for i in range(rng.randint(2, 4))]
            lib.as_.extend(As); lib.bs.extend(Bs)
            for b in Bs:
                for a in rng.sample(As, rng.randint(1, len(As))):
                    b.authors.append(a)

            def rs():
                r = ResourceSet()
                r.resource_factory['json'] = lambda uri: JsonResource(uri)
                r.metamodel_registry[pk.nsURI] = pk
                return r
            path = os.path.join(tmp, f'lib{k}.{fmt}')
            res = rs().create_resource(URI(path))
            res.append(lib)
            try:
                res.save()
                back = rs().get_resource(URI(path)).contents[0]
            except Exception as e:
                ctx.count('loaded/setup-raised/' + type(e).__name__)
                continue
            ctx.evaluations += 1
            ctx.count('loaded/' + fmt)
            ctx.nontriv(('loaded', k))
            problem = None
            for o in list(back.as_) + list(back.bs):
                c = o.books if o.eClass is Author else o.authors
                items = list(c)
                for i, x in enumerate(items):
                    try:
                        if c.index(x) != i or c[i] is not x or x not in c:
                            problem = f'{o.name}: element {i} of {len(items)}: index() gives {c.index(x)}, c[{i}] is it: {c[i] is x}, in: {x in c}'
                    except Exception as e:
                        problem = f'{o.name}: element {i}: {type(e).__name__}'
                    if problem:
                        break
                if not problem and items:
                    x = rng.choice(items)
                    c.remove(x)
                    if [v for v in c] != [v for v in items if v is not x]:
                        problem = f'{o.name}: remove(element {items.index(x)}) left {[v.name for v in c]} of {[v.name for v in items]}'
                if problem:
                    break
            if problem:
                ctx.violate({'clause': 'index-position', 'op': 'load', 'unique': True, 'ordered': True, 'loaded': fmt},
                            f'after a {fmt} load: {problem}', {'loaded': k, 'format': fmt})
                return
    finally:
        shutil.rmtree(tmp, ignore_errors=True)


def refused_item_pass(ctx):
    """`c[i] = x` with an x the feature cannot take, on every declaration, every position (negative, out of range): the call
    raises and the collection is what it was — contents, order, length, index of every element"""
    from pyecore import ecore as E
    mm = metamodel()
    for cfg in CONFIGS:
        for n in range(0, 4):
            for i in range(-(n + 1), n + 2):
                owner = mm['A']()
                c = getattr(owner, feat_name(cfg))
                elems = [10 ** 6 + k for k in range(n)] if cfg[2] == 'attr' else [mm['B']() for _ in range(n)]
                for e in elems:
                    c.append(e)
                bad = 'not an int' if cfg[2] == 'attr' else mm['A']()
                before = list(c)
                ctx.evaluations += 1
                try:
                    c[i] = bad
                    outcome = 'accepted'
                except Exception as e:
                    outcome = type(e).__name__
                after = list(c)
                same = len(after) == len(before) and all(a is b or a == b for a, b in zip(after, before))
                idx_ok = True
                try:
                    idx_ok = all(c.index(e) == k for k, e in enumerate(before)) and len(c) == n
                except Exception:
                    idx_ok = False
                if outcome == 'accepted' or not same or not idx_ok:
                    ctx.violate({'clause': 'refused-changed', 'op': 'setitem', 'unique': cfg[1], 'ordered': cfg[0]},
                                f'{feat_name(cfg)}: c[{i}] = <a value of the wrong type> on {n} elements: {outcome}; contents unchanged: {same}; '
                                f'index() of every element unchanged: {idx_ok}', {'refused_item': feat_name(cfg), 'n': n, 'i': i})
                    return
    ctx.nontriv(('refused-item',))


def run(ctx):
    common.use_repo()
    proxy_back_pass(ctx)
    refused_item_pass(ctx)
    loaded_pass(ctx)
    redeclare_pass(ctx)
    rng = common.sub_rng(ctx.seed, 'C04')
    cases = build_cases(ctx, rng)
    ctx.rule = ('exhaustive: every duplicate-free state (unique) / every list (non-unique) over a universe of '
                f'{3 if ctx.quick() else 4} elements, built on a real EObject feature for each of the 4 (ordered,unique) '
                'declarations x attribute/reference, x every operation x every index in [-(n+3), n+3]; plus random histories. '
                'non-trivial & distinct = distinct (declaration, pre-state, operation) whose call changed the contents or raised')
    ctx.exhaustive = True
    model_in, expect = [], []
    for (cfg, univ, lines, kind) in cases:
        impl, recs = run_case(cfg, univ, lines)
        ctx.evaluations += 1
        ctx.count('case/' + kind)
        ctx.count('op/' + lines[-1].split()[0])
        model_in.append(f'reset {1 if cfg[1] else 0} {univ}')
        expect.append(None)
        for l, r in zip(lines, recs):
            model_in.append('clear' if l == 'delall' else l)
            expect.append((cfg, univ, lines, r))
        last = recs[-1]
        prev_items = recs[-2].split(' ')[2] if len(recs) > 1 else 'items='
        if last.startswith('err') or last.split(' ')[2] != prev_items:
            if kind == 'exhaustive':
                ctx.nontriv((cfg, tuple(lines)))
            ctx.count('raised' if last.startswith('err') else 'changed')
        for (clause, op, detail) in impl.problems[:1]:
            ctx.violate({'clause': clause, 'op': op, 'unique': cfg[1], 'ordered': cfg[0]},
                        f'{feat_name(cfg)}: after {op}: {detail}',
                        {'config': feat_name(cfg), 'universe': univ, 'ops': lines, 'detail': detail})
        if kind == 'history':
            ctx.traces += 1
        ctx.sample({'declaration': feat_name(cfg), 'ops': lines[-3:], 'observed': last}, cap=4)
    out = common.run_driver('oset', model_in)
    for line, exp, got in zip(model_in, expect, out):
        if exp is None:
            continue
        cfg, univ, lines, r = exp
        if norm_model(got) != r:
            ctx.diverge(f'{feat_name(cfg)} op `{line}`: model `{norm_model(got)}` vs implementation `{r}`',
                        {'config': feat_name(cfg), 'universe': univ, 'ops': lines})
            if len(ctx.divergences) > 50:
                break
    ctx.assumptions += [
        'elements of a unique collection are compared by Python ==/hash; the universe holds pairwise different ints / objects',
        'item assignment on a unique collection is judged only by the invariants (no duplicate, index = position)',
        'only whether a call raises is compared, not the exception class',
    ]


def search(ctx):
    """Extended failing-input search: a larger batch of random histories on the real code only."""
    rng = common.sub_rng(ctx.seed, 'C04-search')
    for h in range(4000):
        cfg = CONFIGS[h % len(CONFIGS)]
        u = rng.choice([2, 3, 4, 5, 6])
        lines, n = [], 0
        for _ in range(rng.randint(5, 60)):
            lines.append(random_op(rng, min(n, u), u, cfg[1]))
            n += 1
        impl, recs = run_case(cfg, u, lines)
        ctx.evaluations += 1
        for (clause, op, detail) in impl.problems[:1]:
            ctx.violate({'clause': clause, 'op': op, 'unique': cfg[1], 'ordered': cfg[0]},
                        f'{feat_name(cfg)}: after {op}: {detail}',
                        {'config': feat_name(cfg), 'universe': u, 'ops': lines, 'detail': detail})
            return


def replay(ctx, data):
    common.use_repo()
    r = data['replay']
    cfg = next(c for c in CONFIGS if feat_name(c) == r['config'])
    impl, recs = run_case(cfg, r['universe'], r['ops'])
    for l, rec in zip(r['ops'], recs):
        print(f'  {l:<16} -> {rec}')
    for p in impl.problems:
        print('  ORACLE:', p)
    return 1 if impl.problems else 0
