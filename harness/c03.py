"""C03 — no feature ever holds a value of the wrong type (DESIGN.md section 4).

(i)  history level (harness/storecheck.py): generated histories with ~12% non-conforming operands, model vs code.
(ii) conformance matrix, exhaustive: (every built-in data type, two enumerations sharing a literal name, a class
     hierarchy with a diamond) x (a palette of Python values, instances of every class, own / foreign / free-standing
     literals and literal names) x (every mutation path): accepted iff the independent predicate says it conforms;
     a rejection is a BadValueError, stores nothing and, for single-valued paths, changes nothing.
"""
import datetime
import decimal
from . import storecheck, common

CHECKS = ('c03',)


def matrix(ctx):
    from pyecore import ecore as E
    from pyecore.valuecontainer import BadValueError
    from . import extract as ex
    # ---- types --------------------------------------------------------------------------------------------
    K = [E.EClass(f'K{i}') for i in range(5)]
    K[1].eSuperTypes.append(K[0]); K[2].eSuperTypes.append(K[0])
    K[3].eSuperTypes.extend([K[1], K[2]])          # diamond; K4 unrelated
    En1 = E.EEnum('En1', literals=['A', 'B', 'SHARED'])
    En2 = E.EEnum('En2', literals=['SHARED', 'C'])
    free = E.EEnumLiteral('SHARED', value=2)
    # enumerations with a history: literals given in bulk, a literal renamed, a literal removed and another one taking
    # its name
    En3 = E.EEnum('En3')
    En3.eLiterals.extend([E.EEnumLiteral('X', value=0), E.EEnumLiteral('Y', value=1)])
    En4 = E.EEnum('En4', literals=['OLD', 'KEEP', 'GONE'])
    En4.getEEnumLiteral('OLD').name = 'NEW'
    gone = En4.getEEnumLiteral('GONE')
    En4.eLiterals.remove(gone)
    En4.eLiterals.append(E.EEnumLiteral('BACK', value=7))
    dts = [(n, v) for (n, p, t, f, v) in ex.datatype_rows() if n.startswith('ecore.')]
    # features typed by Ecore's own metaclasses (what eSuperTypes, eEnum, eType are): a classifier of another kind is no value
    metas = [('cls:EClass', E.EClass.eClass), ('cls:EEnum', E.EEnum.eClass), ('cls:EDataType', E.EDataType.eClass),
             ('cls:EClassifier', E.EClassifier.eClass)]
    types = [('cls:' + k.name, k) for k in K] + metas + [('enum:En1', En1), ('enum:En2', En2), ('enum:En3', En3), ('enum:En4', En4)] + [('dt:' + n, v) for n, v in dts]
    insts = {k.name: k() for k in K}
    values = [('None', None), ('True', True), ('False', False), ('0', 0), ('1', 1), ('-1', -1), ('2**70', 2 ** 70), ('1.5', 1.5),
              ("'a'", 'a'), ("''", ''), ("'A'", 'A'), ("'SHARED'", 'SHARED'), ("'C'", 'C'), ("'nope'", 'nope'),
              ("b'x'", b'x'), ('bytearray', bytearray(b'x')), ('datetime', datetime.datetime(2020, 1, 2)),
              ('Decimal', decimal.Decimal('1.5')), ('dict', {}), ('list', []), ('object', object()), ('type', int)]
    values += [('inst:' + n, o) for n, o in insts.items()]
    values += [(f'lit:En1.{l.name}', l) for l in En1.eLiterals] + [(f'lit:En2.{l.name}', l) for l in En2.eLiterals]
    values += [('lit:free.SHARED', free)]
    values += [(f'lit:En3.{l.name}', l) for l in En3.eLiterals] + [(f'lit:En4.{l.name}', l) for l in En4.eLiterals]
    values += [('lit:En4.removed', gone), ("'X'", 'X'), ("'OLD'", 'OLD'), ("'NEW'", 'NEW'), ("'GONE'", 'GONE'), ("'BACK'", 'BACK')]
    # metamodel elements are objects too, of their own (meta)classes
    values += [('EClass K4', K[4]), ('EDataType EString', E.EString), ('EEnum En1', En1), ('EAttribute', E.EAttribute('zz', E.EString))]
    # a proxy nobody has resolved: a reference takes it on trust (not judged), a data type has no such value
    proxy = E.EProxy(path='nowhere#//', resource=None)
    values += [('unresolved proxy', proxy)]

    def expected(t, v, many):
        if v is None:
            return not many          # None into a many-valued feature is outside the statement: not judged (see below)
        if v is proxy:
            return None if isinstance(t, E.EClass) else (not isinstance(t, E.EEnum) and t.eType is object)
        if isinstance(t, E.EClass):
            return isinstance(v, E.EObject) and not isinstance(v, (E.EEnumLiteral,)) and \
                (v.eClass is t or t in v.eClass.eAllSuperTypes())
        if isinstance(t, E.EEnum):
            if isinstance(v, E.EEnumLiteral):
                return any(v is l for l in t.eLiterals)
            return isinstance(v, str) and any(l.name == v for l in t.eLiterals)
        return isinstance(v, t.eType)

    def hashable(x):
        try:
            hash(x)
            return True
        except TypeError:
            return False

    Holder = E.EClass('Holder')
    feats = {}
    for i, (tn, t) in enumerate(types):
        for many in (False, True, 'set'):
            name = f'f{i}{"m" if many is True else ("u" if many else "s")}'
            if isinstance(t, E.EClass):
                f = E.EReference(name, t, upper=-1 if many else 1, unique=many == 'set')
            else:
                f = E.EAttribute(name, t, upper=-1 if many else 1, unique=many == 'set')
            Holder.eStructuralFeatures.append(f)
            feats[(tn, many)] = f
    paths_single = ['attr', 'eSet-name', 'eSet-feature', 'kwargs']
    paths_many = ['append', 'insert', 'extend', 'iadd', 'assign', 'setitem', 'setslice', 'extend-after-good']
    paths_set = ['append', 'insert', 'extend', 'iadd', 'assign', 'setitem', 'extend-after-good', 'ior', 'ixor']
    for (tn, t) in types:
        for (vn, v) in values:
            for many, paths in ((False, paths_single), (True, paths_many), ('set', paths_set)):
                if v is None and many:
                    continue
                if many == 'set' and not hashable(v):
                    continue         # (asking a set about an unhashable value is Python's TypeError)
                f = feats[(tn, many)]
                want = expected(t, v, many)
                if want is None:
                    continue
                for path in paths:
                    h = Holder()
                    if many:
                        # one conforming element first, so that item/slice assignment has something to replace
                        seed = next((x for (_, x) in values if x is not None and x is not v and hashable(x)
                                     and expected(t, x, True)), None)
                        if seed is None:
                            continue
                        getattr(h, f.name).append(seed)
                        # a conforming value of the same Python class as the one offered, when there is one: a bulk call
                        # has to look at every value, not at one per class
                        good = next((x for (_, x) in values if x is not None and x is not v and x is not seed and hashable(x)
                                     and type(x) is type(v) and expected(t, x, True)), None)
                    before = list(getattr(h, f.name)) if many else getattr(h, f.name)
                    isset_before = h.eIsSet(f)
                    try:
                        if path == 'attr':
                            setattr(h, f.name, v)
                        elif path == 'eSet-name':
                            h.eSet(f.name, v)
                        elif path == 'eSet-feature':
                            h.eSet(f, v)
                        elif path == 'kwargs':
                            h = Holder(**{f.name: v})
                        elif path == 'append':
                            getattr(h, f.name).append(v)
                        elif path == 'insert':
                            getattr(h, f.name).insert(0, v)
                        elif path == 'extend':
                            getattr(h, f.name).extend([v])
                        elif path == 'iadd':
                            c = getattr(h, f.name); c += [v]
                        elif path == 'assign':
                            setattr(h, f.name, [v])
                        elif path == 'setitem':
                            getattr(h, f.name)[0] = v
                        elif path == 'setslice':
                            getattr(h, f.name)[0:1] = [v]
                        elif path == 'extend-after-good':
                            if good is None:
                                continue
                            getattr(h, f.name).extend([good, v])
                        elif path == 'ior':
                            c = getattr(h, f.name); c |= ([good, v] if good is not None else [v])
                        elif path == 'ixor':
                            c = getattr(h, f.name); c ^= ([good, v] if good is not None else [v])
                        out = 'accepted'
                    except BadValueError:
                        out = 'BadValueError'
                    except Exception as e:
                        out = 'raised ' + type(e).__name__
                    ctx.evaluations += 1
                    ctx.count('matrix/' + path)
                    ctx.nontriv((tn, vn, path))
                    now = list(getattr(h, f.name)) if many else getattr(h, f.name)
                    problem = None
                    if want and out != 'accepted':
                        problem = ('conforming-rejected', f'{tn} <- {vn} via {path}: {out}')
                    elif not want and out != 'BadValueError':
                        problem = ('not-rejected', f'{tn} <- {vn} via {path}: {out}, feature now {now!r}')
                    elif not want and path != 'kwargs':
                        same = (len(now) == len(before) and all(a is b or (a is not proxy and b is not proxy and a == b) for a, b in zip(now, before))) if many \
                            else (now is before or (now is not proxy and now == before))
                        if not same or h.eIsSet(f) != isset_before:
                            problem = ('rejected-but-changed', f'{tn} <- {vn} via {path}: {before!r} -> {now!r}')
                    elif want and out == 'accepted' and path != 'ixor':     # (^= takes out what is already there)
                        stored = now if many else [now]
                        if not any(x is v or (v is not proxy and x is not proxy and x == v and (many == 'set' or type(x) is type(v))) or
                                   (isinstance(t, E.EEnum) and isinstance(v, str) and getattr(x, 'name', x) == v) for x in stored):
                            if not (isinstance(t, E.EEnum)):
                                problem = ('accepted-not-stored', f'{tn} <- {vn} via {path}: feature now {now!r}')
                    if problem:
                        ctx.violate({'clause': problem[0], 'path': path, 'type': tn.split(':')[0]}, f'{problem[0]}: {problem[1]}',
                                    {'kind': 'matrix', 'type': tn, 'value': vn, 'path': path})
    ctx.extra['matrix_types'] = len(types)
    ctx.extra['matrix_values'] = len(values)


def opposite_typing(ctx):
    """a reference declared on a supertype whose opposite is typed by a subtype (`Node.items : Item[*]` <-> `Item.folder :
    Folder`, `Folder` and `File` both `Node`s): storing an Item into a *File* would make `folder` hold a File — every path
    must refuse it and change nothing, whichever end does the refusing; the same for a single-valued pair"""
    from pyecore import ecore as E
    from pyecore.valuecontainer import BadValueError
    from pyecore.commands import Add, Set, CommandStack
    for many_opp in (False, True):
        Node, Folder, File, Item = E.EClass('Node'), E.EClass('Folder'), E.EClass('File'), E.EClass('Item')
        Folder.eSuperTypes.append(Node); File.eSuperTypes.append(Node)
        items = E.EReference('items', Item, upper=-1)
        folder = E.EReference('folder', Folder, upper=-1 if many_opp else 1, eOpposite=items)
        main = E.EReference('main', Item)
        owner = E.EReference('owner', Folder, eOpposite=main)
        Node.eStructuralFeatures.extend([items, main]); Item.eStructuralFeatures.extend([folder, owner])
        paths = ['append', 'insert', 'extend', 'iadd', 'assign', 'setitem', 'Add-command', 'set-main', 'eSet-main', 'Set-command']
        for path in paths:
            for held in (False, True):
                docs, file_, i, j = Folder(), File(), Item(), Item()
                file_items_seed = None
                if held:
                    docs.items.append(i)            # i already belongs to a Folder: refusing must not take it away
                    docs.main = i
                if path == 'setitem':
                    continue                        # (needs an element in file.items, which cannot legally get one)
                objs = [docs, file_, i, j]

                def snap():
                    return [(id(o), f.name, [id(v) for v in (list(o.eGet(f)) if f.many else ([o.eGet(f)] if o.eGet(f) is not None else []))])
                            for o in objs for f in o.eClass.eAllReferences()]
                before = sorted(snap())
                try:
                    if path == 'append':
                        file_.items.append(i)
                    elif path == 'insert':
                        file_.items.insert(0, i)
                    elif path == 'extend':
                        file_.items.extend([j, i])
                    elif path == 'iadd':
                        c = file_.items; c += [i]
                    elif path == 'assign':
                        file_.items = [i]
                    elif path == 'Add-command':
                        CommandStack().execute(Add(file_, 'items', i))
                    elif path == 'set-main':
                        file_.main = i
                    elif path == 'eSet-main':
                        file_.eSet('main', i)
                    elif path == 'Set-command':
                        CommandStack().execute(Set(file_, 'main', i))
                    out = 'accepted'
                except BadValueError:
                    out = 'BadValueError'
                except Exception as e:
                    out = 'raised ' + type(e).__name__
                ctx.evaluations += 1
                ctx.count('opposite-typing/' + path)
                ctx.nontriv(('opposite-typing', many_opp, path, held))
                after = sorted(snap())
                what = f'File.{"main" if "main" in path or "Set" in path else "items"} <- Item via {path} (Item.{"owner" if "main" in path or "Set" in path else "folder"} is typed Folder' \
                       f'{", many-valued" if many_opp else ""}; the Item {"already belongs to a Folder" if held else "is free"})'
                if out == 'accepted':
                    ctx.violate({'clause': 'not-rejected', 'path': path, 'type': 'opposite-end'}, f'not-rejected: {what}: accepted',
                                {'kind': 'opposite-typing', 'path': path, 'held': held, 'many_opposite': many_opp})
                elif after != before:
                    ctx.violate({'clause': 'rejected-but-changed', 'path': path, 'type': 'opposite-end'},
                                f'rejected-but-changed: {what}: {out}, but reference slots changed', 
                                {'kind': 'opposite-typing', 'path': path, 'held': held, 'many_opposite': many_opp})


def default_conformance_pass(ctx):
    """what a never-set attribute *shows* is a value of the feature too: with a default literal, after the attribute (or
    its enumeration) has been retyped / edited — whether or not the default had been computed before — a fresh instance
    shows a value of the type the attribute has now, and writing that value back is accepted"""
    from pyecore import ecore as E
    n = 40 if ctx.quick() else 600
    Level = E.EEnum('Level', literals=['LOW', 'HIGH'])
    Grade = E.EEnum('Grade', literals=['HIGH', 'LOW', 'MID'])
    combos = [('5', E.EInt, E.EString), ('5', E.EString, E.EInt), ('2', E.EInt, E.EDouble), ('2', E.EDouble, E.EInt),
              ('true', E.EBoolean, E.EString), ('LOW', Level, Grade), ('HIGH', Grade, Level), ('7', E.ELong, E.EBigDecimal),
              ('LOW', E.EString, Level)]
    for h in range(n):
        rng = common.sub_rng(ctx.seed, 'C03', 'default-conformance', h)
        lit, t1, t2 = combos[h % len(combos)]
        A = E.EClass('A')
        y = E.EAttribute('y', t1, defaultValueLiteral=lit)
        A.eStructuralFeatures.append(y)
        warm = rng.random() < .7
        if warm:
            _ = A().y               # the default has been computed once
            if rng.random() < .5:
                _ = y.get_default_value()
        y.eType = t2
        ctx.evaluations += 1
        ctx.count('default-conformance/' + ('computed-before' if warm else 'first-after'))
        ctx.nontriv(('default-conformance', h))
        o = A()
        try:
            v = o.y
        except Exception as e:
            ctx.violate({'clause': 'ill-typed', 'default': True}, f'default literal {lit!r}, {t1.name} retyped {t2.name}: reading a fresh '
                        f'instance raised {type(e).__name__}', {'default_conformance': h})
            return
        ok = (any(v is l for l in t2.eLiterals) if isinstance(t2, E.EEnum) else (v is None or type(v) is t2.eType
                                                                                   or isinstance(v, t2.eType) and t2.eType is not int))
        back = None
        try:
            o.eSet(y, v)
        except Exception as e:
            back = type(e).__name__
        if not ok or back:
            ctx.violate({'clause': 'ill-typed', 'default': True},
                        f'ill-typed: default literal {lit!r}, attribute retyped {t1.name} -> {t2.name} ({"after" if warm else "before"} the '
                        f'default was first computed): a fresh instance shows {v!r} ({type(v).__name__})' +
                        (f'; writing it back raised {back}' if back else ''), {'default_conformance': h})
            return


def supertype_edit_pass(ctx):
    """conformance follows the metamodel as it is now: a class that gives up its supertypes (one by one, all at once,
    by assignment, by del) is no longer a value of references typed by them; taken back, it is again"""
    from pyecore import ecore as E
    from pyecore.valuecontainer import BadValueError
    for k, how in enumerate(['remove', 'clear', 'assign-empty', 'del', 'pop', 'assign-other'] * (1 if ctx.quick() else 5)):
        rng = common.sub_rng(ctx.seed, 'C03', 'supertype-edit', k)
        A, B, C, H = E.EClass('A'), E.EClass('B'), E.EClass('C'), E.EClass('H')
        B.eSuperTypes.append(A)
        if rng.random() < .5:
            B.eSuperTypes.append(C)
        many = rng.random() < .5
        H.eStructuralFeatures.append(E.EReference('r', A, upper=-1 if many else 1))
        h0, b0 = H(), B()
        (h0.r.append if many else (lambda v: setattr(h0, 'r', v)))(b0)       # accepted while B is an A
        if how == 'remove':
            B.eSuperTypes.remove(A)
        elif how == 'clear':
            B.eSuperTypes.clear()
        elif how == 'assign-empty':
            B.eSuperTypes = []
        elif how == 'del':
            del B.eSuperTypes
        elif how == 'pop':
            while len(B.eSuperTypes):
                B.eSuperTypes.pop()
        else:
            B.eSuperTypes = [C]
        ctx.evaluations += 1
        ctx.count('supertype-edit/' + how)
        ctx.nontriv(('supertype-edit', k))
        h1 = H()
        try:
            (h1.r.append if many else (lambda v: setattr(h1, 'r', v)))(B())
            out = 'accepted'
        except BadValueError:
            out = 'BadValueError'
        except Exception as e:
            out = 'raised ' + type(e).__name__
        if out != 'BadValueError':
            ctx.violate({'clause': 'not-rejected', 'path': 'supertype-edit', 'type': 'cls'},
                        f'not-rejected: B gave up its supertype A ({how}); an instance of B offered to a reference typed A: {out}',
                        {'supertype_edit': k, 'how': how})
            return
        B.eSuperTypes.append(A)
        try:
            (h1.r.append if many else (lambda v: setattr(h1, 'r', v)))(B())
        except Exception as e:
            ctx.violate({'clause': 'conforming-rejected', 'path': 'supertype-edit', 'type': 'cls'},
                        f'conforming-rejected: B took the supertype A back (after {how}); an instance of B offered to a reference typed A: {type(e).__name__}',
                        {'supertype_edit': k, 'how': how})
            return


def load_pass(ctx):
    """the load path: XMI and JSON documents in which a reference (single, many) names an object of the *wrong class* of
    the same document — spelled the way pyecore writes it (`//@pets.0`) and with a leading `#` — or an attribute holds a
    text its type cannot read: the load raises, or every value observable afterwards (proxies followed) conforms"""
    import os, re, shutil, tempfile, json as _json
    from pyecore import ecore as E
    from pyecore.resources import ResourceSet, URI
    from pyecore.resources.json import JsonResource
    tmp = tempfile.mkdtemp(prefix='verif_c03_')
    try:
        for k in range(16 if ctx.quick() else 200):
            rng = common.sub_rng(ctx.seed, 'C03', 'load', k)
            fmt = 'xmi' if k % 2 == 0 else 'json'
            pk = E.EPackage('zoo', f'http://verif/c03/zoo{k}', 'zoo')
            Person, Pet, Zoo = E.EClass('Person'), E.EClass('Pet'), E.EClass('Zoo')
            pk.eClassifiers.extend([Person, Pet, Zoo])
            for c in (Person, Pet):
                c.eStructuralFeatures.append(E.EAttribute('name', E.EString))
            Zoo.eStructuralFeatures.extend([E.EReference('people', Person, upper=-1, containment=True),
                                            E.EReference('pets', Pet, upper=-1, containment=True),
                                            E.EReference('boss', Person), E.EReference('friends', Person, upper=-1),
                                            E.EAttribute('n', E.EInt)])
            zoo = Zoo(n=4)
            zoo.people.extend([Person(name=f'p{i}') for i in range(3)])
            zoo.pets.extend([Pet(name=f'q{i}') for i in range(2)])
            zoo.boss = zoo.people[1]
            zoo.friends.extend([zoo.people[0], zoo.people[2]])

            def rs():
                r = ResourceSet()
                r.resource_factory['json'] = lambda uri: JsonResource(uri)
                r.metamodel_registry[pk.nsURI] = pk
                return r
            path = os.path.join(tmp, f'zoo{k}.{fmt}')
            res = rs().create_resource(URI(path))
            res.append(zoo)
            res.save()
            text = open(path).read()
            hash_ = rng.random() < .5
            bad = ('#' if hash_ else '') + f'//@pets.{rng.randrange(2)}'
            which = rng.choice(['boss', 'friends'])
            if fmt == 'xmi':
                if which == 'boss':
                    doc = re.sub(r'boss="[^"]*"', f'boss="{bad}"', text)
                else:
                    doc = re.sub(r'friends="([^" ]*) [^"]*"', lambda m: f'friends="{m.group(1)} {bad}"', text)
            else:
                d = _json.loads(text)
                if which == 'boss':
                    d['boss']['$ref'] = bad
                else:
                    d['friends'][-1]['$ref'] = bad
                doc = _json.dumps(d)
            if doc == text:
                ctx.count('load/no-token-found')
                continue
            open(path, 'w').write(doc)
            ctx.evaluations += 1
            label = f'{fmt}/{which}/{"with #" if hash_ else "as written"}'
            try:
                back = rs().get_resource(URI(path)).contents[0]
            except Exception:
                ctx.count(f'load/{label}/raised')
                continue
            ctx.count(f'load/{label}/loaded')
            ctx.nontriv(('load', k))
            wrong = None
            try:
                vals = [back.boss] if which == 'boss' else list(back.friends)
                for v in vals:
                    if v is None:
                        continue
                    cls = v.eClass          # (follows a proxy)
                    if cls is not Person:
                        wrong = f'{which} holds a {cls.name}'
            except Exception as e:
                wrong = None            # a reference that cannot be followed is C14's / C18's business
            if wrong:
                ctx.violate({'clause': 'stored-nonconforming', 'path': f'{fmt}-load'},
                            f'stored-nonconforming: a {fmt} document whose {which} names a Pet ({bad!r}) loaded: {wrong}, the feature is typed Person',
                            {'load_case': k, 'format': fmt, 'feature': which, 'token': bad})
                return
    finally:
        shutil.rmtree(tmp, ignore_errors=True)


def retype_pass(ctx):
    """the declared type of a feature changes after an object has already written it (a data type for another one, a
    class for an unrelated one): the same object — and a new one — are then held to the type declared *now*, through
    attribute syntax, eSet and the collection mutators"""
    from pyecore import ecore as E
    for k in range(24 if ctx.quick() else 300):
        rng = common.sub_rng(ctx.seed, 'C03', 'retype', k)
        A, B, H = E.EClass('A'), E.EClass('B'), E.EClass('H')
        ref = k % 2 == 1
        many = (k // 2) % 2 == 1
        f = (E.EReference('f', A, upper=-1 if many else 1) if ref else E.EAttribute('f', E.EInt, upper=-1 if many else 1))
        H.eStructuralFeatures.append(f)
        old_ok, new_ok = (A(), B()) if ref else (3, 'three')
        used = H()
        first = rng.choice(['value', 'none']) if not many else 'value'
        if many:
            used.f.append(old_ok)
        else:
            used.f = old_ok if first == 'value' else None
        f.eType = B if ref else E.EString
        ctx.evaluations += 1
        ctx.nontriv(('retype', k))
        for who, o in (('the object that had written the feature before', used), ('a new object', H())):
            for path in (['append', 'insert', 'extend'] if many else ['attr', 'eSet']):
                def put(v):
                    if path == 'append':
                        o.f.append(v)
                    elif path == 'insert':
                        o.f.insert(0, v)
                    elif path == 'extend':
                        o.f.extend([v])
                    elif path == 'attr':
                        o.f = v
                    else:
                        o.eSet('f', v)
                problem = None
                try:
                    put(new_ok if not ref else B())
                except Exception as e:
                    problem = f'a value of the new type is refused ({type(e).__name__})'
                if not problem:
                    try:
                        put(old_ok if not ref else A())
                        problem = 'a value of the old type is still accepted'
                    except E.BadValueError:
                        pass
                    except Exception as e:
                        problem = f'a value of the old type raises {type(e).__name__} instead of BadValueError'
                if problem:
                    ctx.violate({'clause': 'retype', 'path': path, 'ref': ref, 'many': many},
                                f'a {"many" if many else "single"}-valued {"reference" if ref else "attribute"} retyped after use; {who}, {path}: {problem}',
                                {'retype': k, 'path': path})
                    return


def redeclared_type_pass(ctx):
    """features leave a class that has instances — one at a time (remove, pop, del by position) or in bulk (clear(), `del
    fs[:]`, whole-collection assignment) — and a feature of the same name and another type joins it: what the old objects
    (of the class and of a subclass) and new ones show under that name conforms to the type declared *now*, values of the
    new type are accepted and values of the old one refused"""
    from pyecore import ecore as E
    ways = ['remove', 'pop', 'delitem', 'clear', 'delslice', 'assign']
    for way in ways:
        for ref in (False, True):
            for many in (False, True):
                A, B, H = E.EClass('A'), E.EClass('B'), E.EClass('H')
                S = E.EClass('S', superclass=(H,))
                other = E.EAttribute('other', E.EString)
                f = (E.EReference('f', A, upper=-1 if many else 1) if ref else E.EAttribute('f', E.EString, upper=-1 if many else 1))
                H.eStructuralFeatures.extend([other, f])
                olds = [H(), S()]
                for o in olds:
                    v = A() if ref else 'text'
                    if many:
                        o.f.append(v)
                    else:
                        o.f = v
                fs = H.eStructuralFeatures
                try:
                    if way == 'remove':
                        fs.remove(f)
                    elif way == 'pop':
                        fs.pop()
                    elif way == 'delitem':
                        del fs[1]
                    elif way == 'clear':
                        fs.clear()
                    elif way == 'delslice':
                        del fs[:]
                    else:
                        H.eStructuralFeatures = []
                except Exception as e:
                    ctx.count(f'redeclared/{way}/raised-{type(e).__name__}')
                    continue
                g = (E.EReference('f', B, upper=-1 if many else 1) if ref else E.EAttribute('f', E.EInt, upper=-1 if many else 1))
                H.eStructuralFeatures.append(g)
                ctx.evaluations += 1
                ctx.nontriv(('redeclared', way, ref, many))
                ctx.count(f'redeclared/{way}')
                for who, o in (('an object of the class that held a value of the old feature', olds[0]),
                               ('an object of a subclass that held a value of the old feature', olds[1]), ('a new object', H())):
                    problem = None
                    try:
                        seen = list(o.f) if many else ([o.f] if o.f is not None and o.f != 0 else [])
                        bad = [x for x in seen if not (isinstance(x, B) if ref else type(x) is int)]
                        if bad:
                            problem = f'reads {bad[0]!r}, a value of the feature that left'
                    except Exception as e:
                        problem = f'reading raises {type(e).__name__}: {e}'
                    if not problem:
                        try:
                            if many:
                                o.f.append(B() if ref else 7)
                            else:
                                o.f = B() if ref else 7
                        except Exception as e:
                            problem = f'a value of the new type is refused ({type(e).__name__})'
                    if not problem:
                        try:
                            if many:
                                o.f.append(A() if ref else 'text')
                            else:
                                o.f = A() if ref else 'text'
                            problem = 'a value of the old type is still accepted'
                        except E.BadValueError:
                            pass
                        except Exception as e:
                            problem = f'a value of the old type raises {type(e).__name__} instead of BadValueError'
                    if problem:
                        ctx.violate({'clause': 'retype', 'path': 'redeclared-' + way, 'ref': ref, 'many': many},
                                    f'a {"many" if many else "single"}-valued {"reference" if ref else "attribute"} left its class by {way} and another '
                                    f'one of the same name and another type joined; {who}: {problem}', {'redeclared': [way, ref, many]})
                        return


def opposite_type_pass(ctx):
    """`EReference.eOpposite` stands in for a feature typed EReference: a reference, None and nothing else — whatever its
    truth value — is accepted; a refused value leaves the pairing as it was"""
    from pyecore import ecore as E
    A = E.EClass('A')
    bad_values = ['', 0, 0.0, False, [], (), {}, b'', 'x', 5, True, [1], A, E.EAttribute('a', E.EInt), object()]
    for k, bad in enumerate(bad_values):
        r1, r2 = E.EReference('r1', A), E.EReference('r2', A)
        r1.eOpposite = r2
        for path in ('attr', 'eSet', 'constructor'):
            ctx.evaluations += 1
            ctx.nontriv(('opposite-type', k, path))
            raised = None
            try:
                if path == 'attr':
                    r1.eOpposite = bad
                elif path == 'eSet':
                    r1.eSet('eOpposite', bad)
                else:
                    E.EReference('r3', A, eOpposite=bad)
            except E.BadValueError:
                raised = 'BadValueError'
            except Exception as e:
                raised = type(e).__name__
            kept = r1.eOpposite is r2 and r2.eOpposite is r1
            if raised != 'BadValueError' or not kept:
                ctx.violate({'clause': 'stored-nonconforming' if raised is None else 'wrong-exception', 'path': f'eOpposite-{path}'},
                            f'eOpposite given {bad!r} ({path}): {"accepted" if raised is None else "raised " + raised}; the previous pairing is '
                            f'{"kept" if kept else "gone"}', {'opposite_type': k, 'path': path})
                return
    r1, r2 = E.EReference('r1', A), E.EReference('r2', A)
    r1.eOpposite = r2
    r1.eOpposite = None
    if r1.eOpposite is not None or r2.eOpposite is not None:
        ctx.violate({'clause': 'refused-conforming', 'path': 'eOpposite-attr'}, 'eOpposite = None does not release both ends', {'opposite_type': 'none'})


def run(ctx):
    storecheck.run(ctx, CHECKS)
    default_conformance_pass(ctx)
    supertype_edit_pass(ctx)
    load_pass(ctx)
    retype_pass(ctx)
    opposite_type_pass(ctx)
    redeclared_type_pass(ctx)
    matrix(ctx)
    opposite_typing(ctx)
    ctx.rule += ('; plus the exhaustive conformance matrix: every ecore data type, two enumerations sharing a literal name, 5 classes '
                 'with a diamond x a palette of 35 values (None, bools, ints, floats, strs incl. literal names, bytes, datetime, Decimal, '
                 'dict, list, type, instances of every class, own/foreign/free-standing literals, literals and names of enumerations with a history (bulk-added, renamed, removed), metamodel elements) x 11 mutation paths; plus a pair of opposites whose single end is typed by a subtype of the other end\'s owner: the ill-typed couple offered through 9 paths from the other end')
    ctx.assumptions.append('None offered to a many-valued feature is neither listed nor excluded by the statement and pinned as accepted by the suite: not judged')


def search(ctx):
    storecheck.search(ctx, CHECKS)


def replay(ctx, data):
    if 'default_conformance' in data['replay']:
        common.use_repo()
        c2 = common.Ctx('C03', 'quick', data.get('seed', 0))
        default_conformance_pass(c2)
        for v in c2.violations:
            print('  ', v['what'])
        return 1 if c2.violations else 0
    if data['replay'].get('kind') == 'matrix':
        common.use_repo()
        c2 = common.Ctx('C03', 'quick', 0)
        matrix(c2)
        hits = [v for v in c2.violations if v['replay']['type'] == data['replay']['type'] and v['replay']['value'] == data['replay']['value']]
        for v in hits[:5]:
            print('  ', v['what'])
        return 1 if hits else 0
    return storecheck.replay(ctx, data, CHECKS)
