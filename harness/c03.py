"""C03 — no feature ever holds a value of the wrong type (DESIGN.md section 4).

(i)  history level (harness/storecheck.py): generated histories with ~12% non-conforming operands, model vs code.
(ii) conformance matrix, exhaustive: (every built-in data type, two enumerations sharing a literal name, a class
     hierarchy with a diamond) x (a palette of Python values, instances of every class, own / foreign / free-standing
     literals and literal names) x (every mutation path): accepted iff the independent predicate says it conforms;
     a rejection is a BadValueError, stores nothing and, for single-valued paths, changes nothing.
"""
import datetime
import decimal
from . import storecheck, common

CHECKS = ('c03',)


def matrix(ctx):
    from pyecore import ecore as E
    from pyecore.valuecontainer import BadValueError
    from . import extract as ex
    # ---- types --------------------------------------------------------------------------------------------
    K = [E.EClass(f'K{i}') for i in range(5)]
    K[1].eSuperTypes.append(K[0]); K[2].eSuperTypes.append(K[0])
    K[3].eSuperTypes.extend([K[1], K[2]])          # diamond; K4 unrelated
    En1 = E.EEnum('En1', literals=['A', 'B', 'SHARED'])
    En2 = E.EEnum('En2', literals=['SHARED', 'C'])
    free = E.EEnumLiteral('SHARED', value=2)
    dts = [(n, v) for (n, p, t, f, v) in ex.datatype_rows() if n.startswith('ecore.')]
    types = [('cls:' + k.name, k) for k in K] + [('enum:En1', En1), ('enum:En2', En2)] + [('dt:' + n, v) for n, v in dts]
    insts = {k.name: k() for k in K}
    values = [('None', None), ('True', True), ('False', False), ('0', 0), ('1', 1), ('-1', -1), ('2**70', 2 ** 70), ('1.5', 1.5),
              ("'a'", 'a'), ("''", ''), ("'A'", 'A'), ("'SHARED'", 'SHARED'), ("'C'", 'C'), ("'nope'", 'nope'),
              ("b'x'", b'x'), ('bytearray', bytearray(b'x')), ('datetime', datetime.datetime(2020, 1, 2)),
              ('Decimal', decimal.Decimal('1.5')), ('dict', {}), ('list', []), ('object', object()), ('type', int)]
    values += [('inst:' + n, o) for n, o in insts.items()]
    values += [(f'lit:En1.{l.name}', l) for l in En1.eLiterals] + [(f'lit:En2.{l.name}', l) for l in En2.eLiterals]
    values += [('lit:free.SHARED', free)]

    def expected(t, v, many):
        if v is None:
            return not many          # None into a many-valued feature is outside the statement: not judged (see below)
        if isinstance(t, E.EClass):
            return isinstance(v, E.EObject) and not isinstance(v, (E.EEnumLiteral,)) and \
                (v.eClass is t or t in v.eClass.eAllSuperTypes())
        if isinstance(t, E.EEnum):
            if isinstance(v, E.EEnumLiteral):
                return any(v is l for l in t.eLiterals)
            return isinstance(v, str) and any(l.name == v for l in t.eLiterals)
        return isinstance(v, t.eType)

    Holder = E.EClass('Holder')
    feats = {}
    for i, (tn, t) in enumerate(types):
        for many in (False, True):
            name = f'f{i}{"m" if many else "s"}'
            if isinstance(t, E.EClass):
                f = E.EReference(name, t, upper=-1 if many else 1, unique=False)
            else:
                f = E.EAttribute(name, t, upper=-1 if many else 1, unique=False)
            Holder.eStructuralFeatures.append(f)
            feats[(tn, many)] = f
    paths_single = ['attr', 'eSet-name', 'eSet-feature', 'kwargs']
    paths_many = ['append', 'insert', 'extend', 'iadd', 'assign', 'setitem', 'setslice']
    for (tn, t) in types:
        for (vn, v) in values:
            for many, paths in ((False, paths_single), (True, paths_many)):
                if v is None and many:
                    continue
                f = feats[(tn, many)]
                want = expected(t, v, many)
                for path in paths:
                    h = Holder()
                    if many:
                        # one conforming element first, so that item/slice assignment has something to replace
                        seed = next((x for (_, x) in values if x is not None and expected(t, x, True)), None)
                        if seed is None:
                            continue
                        getattr(h, f.name).append(seed)
                    before = list(getattr(h, f.name)) if many else getattr(h, f.name)
                    isset_before = h.eIsSet(f)
                    try:
                        if path == 'attr':
                            setattr(h, f.name, v)
                        elif path == 'eSet-name':
                            h.eSet(f.name, v)
                        elif path == 'eSet-feature':
                            h.eSet(f, v)
                        elif path == 'kwargs':
                            h = Holder(**{f.name: v})
                        elif path == 'append':
                            getattr(h, f.name).append(v)
                        elif path == 'insert':
                            getattr(h, f.name).insert(0, v)
                        elif path == 'extend':
                            getattr(h, f.name).extend([v])
                        elif path == 'iadd':
                            c = getattr(h, f.name); c += [v]
                        elif path == 'assign':
                            setattr(h, f.name, [v])
                        elif path == 'setitem':
                            getattr(h, f.name)[0] = v
                        elif path == 'setslice':
                            getattr(h, f.name)[0:1] = [v]
                        out = 'accepted'
                    except BadValueError:
                        out = 'BadValueError'
                    except Exception as e:
                        out = 'raised ' + type(e).__name__
                    ctx.evaluations += 1
                    ctx.count('matrix/' + path)
                    ctx.nontriv((tn, vn, path))
                    now = list(getattr(h, f.name)) if many else getattr(h, f.name)
                    problem = None
                    if want and out != 'accepted':
                        problem = ('conforming-rejected', f'{tn} <- {vn} via {path}: {out}')
                    elif not want and out != 'BadValueError':
                        problem = ('not-rejected', f'{tn} <- {vn} via {path}: {out}, feature now {now!r}')
                    elif not want and path != 'kwargs':
                        same = (len(now) == len(before) and all(a is b or a == b for a, b in zip(now, before))) if many \
                            else (now is before or now == before)
                        if not same or h.eIsSet(f) != isset_before:
                            problem = ('rejected-but-changed', f'{tn} <- {vn} via {path}: {before!r} -> {now!r}')
                    elif want and out == 'accepted':
                        stored = now if many else [now]
                        if not any(x is v or (x == v and type(x) is type(v)) or
                                   (isinstance(t, E.EEnum) and isinstance(v, str) and getattr(x, 'name', x) == v) for x in stored):
                            if not (isinstance(t, E.EEnum)):
                                problem = ('accepted-not-stored', f'{tn} <- {vn} via {path}: feature now {now!r}')
                    if problem:
                        ctx.violate({'clause': problem[0], 'path': path, 'type': tn.split(':')[0]}, f'{problem[0]}: {problem[1]}',
                                    {'kind': 'matrix', 'type': tn, 'value': vn, 'path': path})
    ctx.extra['matrix_types'] = len(types)
    ctx.extra['matrix_values'] = len(values)


def run(ctx):
    storecheck.run(ctx, CHECKS)
    matrix(ctx)
    ctx.rule += ('; plus the exhaustive conformance matrix: every ecore data type, two enumerations sharing a literal name, 5 classes '
                 'with a diamond x a palette of 35 values (None, bools, ints, floats, strs incl. literal names, bytes, datetime, Decimal, '
                 'dict, list, type, instances of every class, own/foreign/free-standing literals) x 11 mutation paths')
    ctx.assumptions.append('None offered to a many-valued feature is neither listed nor excluded by the statement and pinned as accepted by the suite: not judged')


def search(ctx):
    storecheck.search(ctx, CHECKS)


def replay(ctx, data):
    if data['replay'].get('kind') == 'matrix':
        common.use_repo()
        c2 = common.Ctx('C03', 'quick', 0)
        matrix(c2)
        hits = [v for v in c2.violations if v['replay']['type'] == data['replay']['type'] and v['replay']['value'] == data['replay']['value']]
        for v in hits[:5]:
            print('  ', v['what'])
        return 1 if hits else 0
    return storecheck.replay(ctx, data, CHECKS)
