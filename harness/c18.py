"""C18 — a load that fails leaves no trace, and whatever loads is well-formed (DESIGN.md section 4)."""
import os
import re
import shutil
import signal
import tempfile
from . import common, models
from .c08 import wellformed


def extract(ctx):
    from . import extract as ex
    xs, js, gs, changed = ex.gen_skeletons()
    ctx.extra['get_resource_skeleton'] = gs
    ctx.table_obligations = 1       # C18_skeleton on the regenerated skeleton


class Hang(Exception):
    pass


def _alarm(signum, frame):
    raise Hang()


def make_document(rng, h, tmp, fmt):
    """a valid document saved by the real code from a generated model -> (bytes, package)"""
    from pyecore.resources import ResourceSet, URI
    sp = models.gen_mmspec(rng, h)
    m = models.gen_model(rng, sp, nobj=rng.randint(3, 8), values='safe')
    rset = ResourceSet()
    path = os.path.join(tmp, f'src.{fmt}')
    res = rset.create_resource(URI(path))
    for r in m.roots:
        res.append(r)
    res.save()
    return open(path, 'rb').read(), m.pk


def corruptions(rng, doc, fmt, n):
    """systematic single-token corruptions of a text document"""
    text = doc.decode('utf-8')
    out = []
    toks = list(re.finditer(r'[A-Za-z_][A-Za-z0-9_]*|"[^"]*"|\d+', text))
    for _ in range(n):
        if not toks:
            break
        t = rng.choice(toks)
        k = rng.random()
        a, b = t.span()
        if k < .3:
            new = text[:a] + t.group(0)[::-1] + text[b:]                     # renamed feature / class / value
        elif k < .5:
            new = text[:a] + text[b:]                                        # removed token
        elif k < .7:
            new = text[:a] + t.group(0) + t.group(0) + text[b:]              # duplicated token
        elif k < .78:
            # one word of a blank-separated list (a many-valued reference) given twice: `a b` -> `a a b`
            lists = [m for m in toks if m.group(0).startswith('"') and ' ' in m.group(0).strip('"').strip()]
            if not lists:
                continue
            t = rng.choice(lists)
            a, b = t.span()
            words = t.group(0).strip('"').split()
            i = rng.randrange(len(words))
            words.insert(i, words[i])
            new = text[:a] + '"' + ' '.join(words) + '"' + text[b:]
        elif k < .88:
            new = text[:a] + '"//@nowhere.99"' + text[b:]                    # broken reference / wrong type
        else:
            c = rng.randrange(len(text))
            new = text[:c] + rng.choice('<>"{}[],:/') + text[c + 1:]        # a structural character
        out.append(new.encode('utf-8'))
    return out


def snapshot(rset):
    from pyecore.resources import global_registry
    return (sorted((k, id(v)) for k, v in rset.resources.items()),
            sorted((k, id(v)) for k, v in rset.metamodel_registry.maps[0].items()),
            sorted((k, id(v)) for k, v in global_registry.items()))


def attempt(ctx, data, pk, tmp, fmt, label, h):
    """ask a resource set (that already holds another resource) for the document; judge the outcome"""
    from pyecore.resources import ResourceSet, URI
    rset = ResourceSet()
    rset.metamodel_registry[pk.nsURI] = pk
    keep = rset.create_resource(URI(os.path.join(tmp, f'keep.{fmt}')))       # a previously present resource
    path = os.path.join(tmp, f'doc.{fmt}')
    with open(path, 'wb') as fh:
        fh.write(data)
    before = snapshot(rset)
    signal.signal(signal.SIGALRM, _alarm)
    signal.alarm(10)
    res, raised = None, None
    try:
        res = rset.get_resource(URI(path))
    except Hang:
        raised = 'HANG'
    except RecursionError:
        raised = 'RecursionError'
    except Exception as e:
        raised = type(e).__name__
    finally:
        signal.alarm(0)
    ctx.evaluations += 1
    ctx.count(f'{fmt}/{label}/' + ('raised' if raised else 'loaded'))
    rep = {'case': h, 'format': fmt, 'kind': label, 'size': len(data), 'document': data.decode('utf-8', 'replace')[:3000]}
    if raised == 'HANG':
        ctx.violate({'clause': 'hang', 'format': fmt}, f'get_resource did not return within 10 s on a {label} {fmt} document', rep)
        return
    if raised:
        ctx.nontriv((h, fmt, label, len(data)))
        after = snapshot(rset)
        if after != before:
            what = 'resources' if after[0] != before[0] else ('metamodel registry' if after[1] != before[1] else 'global registry')
            ctx.violate({'clause': 'trace-after-failure', 'format': fmt, 'what': what},
                        f'after a failed load ({raised}) of a {label} {fmt} document the {what} changed: '
                        f'{[k for k, _ in after[0]]} vs {[k for k, _ in before[0]]}', rep)
        return
    # it loaded: the model must be well-formed, the resource registered once, and asking again returns it
    try:
        wf = wellformed(res.contents)
    except Exception as e:
        wf = f'inspecting the loaded model raised {type(e).__name__}'
    if wf:
        ctx.violate({'clause': 'loaded-not-wellformed', 'format': fmt}, f'a {label} {fmt} document loaded into an ill-formed model: {wf}', rep)
    again = rset.get_resource(URI(path))
    if again is not res:
        ctx.violate({'clause': 'not-idempotent', 'format': fmt}, f'asking twice for the same URI returned two resources', rep)


def run_case(ctx, h, tmp, nprefix, ncorr):
    rng = common.sub_rng(ctx.seed, 'C18', h)
    fmt = 'xmi' if h % 2 == 0 else 'json'
    try:
        doc, pk = make_document(rng, h, tmp, fmt)
    except Exception:
        ctx.count(f'{fmt}/source-model-not-serializable')
        return
    attempt(ctx, doc, pk, tmp, fmt, 'valid', h)
    cuts = range(len(doc)) if len(doc) <= nprefix else sorted(rng.sample(range(len(doc)), nprefix))
    for c in cuts:
        attempt(ctx, doc[:c], pk, tmp, fmt, 'prefix', h)
    for bad in corruptions(rng, doc, fmt, ncorr):
        attempt(ctx, bad, pk, tmp, fmt, 'corrupted', h)
    if h < 2:
        ctx.sample({'case': h, 'format': fmt, 'bytes': len(doc), 'document_head': doc.decode('utf-8')[:300]})


def run(ctx):
    common.use_repo()
    n = 14 if ctx.quick() else 300
    nprefix = 400 if ctx.quick() else 2000
    ncorr = 120 if ctx.quick() else 600
    ctx.rule = (f'{n} valid XMI/JSON documents saved from generated models; for each: every byte prefix (sampled to {nprefix} above '
                f'that size) and {ncorr} single-token corruptions (reversed names, removed/duplicated tokens, a word of a blank-separated reference list given twice, broken references, '
                'structural characters), each asked from a resource set that already holds another resource, under a 10 s watchdog; '
                'oracle: raises or yields a model satisfying C01-C03; after a failure resources / metamodel registry / global '
                'registry are exactly as before; a second get_resource returns the same resource. non-trivial & distinct = '
                'attempts that raised')
    tmp = tempfile.mkdtemp(prefix='verif_c18_')
    try:
        for h in range(n):
            run_case(ctx, h, tmp, nprefix, ncorr)
    finally:
        shutil.rmtree(tmp, ignore_errors=True)
    ctx.assumptions += ['termination of lxml / json parsing itself is trusted (watchdog only)',
                        'documents are produced by the real save from generated models; corruptions are single-token']


def search(ctx):
    pass


def replay(ctx, data):
    common.use_repo()
    r = data['replay']
    print('  ', data['what'])
    print('  document:', r.get('document', '')[:600])
    return 1
