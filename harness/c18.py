"""C18 — a load that fails leaves no trace, and whatever loads is well-formed (DESIGN.md section 4)."""
import os
import re
import shutil
import signal
import tempfile
from . import common, models
from .c08 import wellformed


def extract(ctx):
    from . import extract as ex
    xs, js, gs, changed = ex.gen_skeletons()
    ctx.extra['get_resource_skeleton'] = gs
    ctx.table_obligations = 1       # C18_skeleton on the regenerated skeleton


class Hang(Exception):
    pass


def _alarm(signum, frame):
    raise Hang()


def make_document(rng, h, tmp, fmt):
    """a valid document saved by the real code from a generated model -> (bytes, package)"""
    from pyecore.resources import ResourceSet, URI
    sp = models.gen_mmspec(rng, h)
    m = models.gen_model(rng, sp, nobj=rng.randint(3, 8), values='safe')
    rset = ResourceSet()
    path = os.path.join(tmp, f'src.{fmt}')
    res = rset.create_resource(URI(path))
    for r in m.roots:
        res.append(r)
    res.save()
    return open(path, 'rb').read(), m.pk


def corruptions(rng, doc, fmt, n):
    """systematic single-token corruptions of a text document"""
    text = doc.decode('utf-8')
    out = []
    toks = list(re.finditer(r'[A-Za-z_][A-Za-z0-9_]*|"[^"]*"|\d+', text))
    for _ in range(n):
        if not toks:
            break
        t = rng.choice(toks)
        k = rng.random()
        a, b = t.span()
        if k < .3:
            new = text[:a] + t.group(0)[::-1] + text[b:]                     # renamed feature / class / value
        elif k < .5:
            new = text[:a] + text[b:]                                        # removed token
        elif k < .7:
            new = text[:a] + t.group(0) + t.group(0) + text[b:]              # duplicated token
        elif k < .78:
            # one word of a blank-separated list (a many-valued reference) given twice: `a b` -> `a a b`
            lists = [m for m in toks if m.group(0).startswith('"') and ' ' in m.group(0).strip('"').strip()]
            if not lists:
                continue
            t = rng.choice(lists)
            a, b = t.span()
            words = t.group(0).strip('"').split()
            i = rng.randrange(len(words))
            words.insert(i, words[i])
            new = text[:a] + '"' + ' '.join(words) + '"' + text[b:]
        elif k < .84:
            new = text[:a] + '"//@nowhere.99"' + text[b:]                    # broken reference / wrong type
        elif k < .93:
            # a reference re-pointed to another object of the document (one end of a bidirectional pair then disagrees
            # with the other end as written): the document stays well formed, the model it describes is not
            reftoks = [m for m in toks if m.group(0).startswith('"') and m.group(0).strip('"').split()
                       and all(w.startswith('/') for w in m.group(0).strip('"').split())]
            pool = sorted({w for m in reftoks for w in m.group(0).strip('"').split()})
            if len(pool) < 2:
                continue
            t = rng.choice(reftoks)
            a, b = t.span()
            words = t.group(0).strip('"').split()
            i = rng.randrange(len(words))
            words[i] = rng.choice([w for w in pool if w != words[i]])
            new = text[:a] + '"' + ' '.join(words) + '"' + text[b:]
        else:
            c = rng.randrange(len(text))
            new = text[:c] + rng.choice('<>"{}[],:/') + text[c + 1:]        # a structural character
        out.append(new.encode('utf-8'))
    return out



def cycle_requests(rng, doc, fmt, pk, n):
    """documents that ask for a containment cycle: a containment feature of some object is made to name the root or another
    ancestor (XMI: as a reference attribute; JSON: as a `$ref` inside the containment value).  The load has to end —
    with an exception or with a model — and must not hang."""
    import json
    from lxml import etree
    classes = {c.name: c for c in pk.eAllContents() if hasattr(c, 'eStructuralFeatures')}

    def conts(c):
        return [f for f in c.eAllStructuralFeatures() if f.is_reference and f.containment]
    out = []
    if fmt == 'xmi':
        for _ in range(n):
            root = etree.fromstring(doc)
            tops = [root] if not root.tag.endswith('}XMI') else [c for c in root if isinstance(c.tag, str)]
            cand = []      # (element, class, ancestor paths)

            def walk(e, cls, path, anc):
                cand.append((e, cls, anc + [path]))
                counts = {}
                for ch in e:
                    if not isinstance(ch.tag, str):
                        continue
                    f = next((g for g in conts(cls) if g.name == ch.tag), None)
                    if f is None:
                        continue
                    i = counts.get(f.name, 0); counts[f.name] = i + 1
                    t = ch.get('{http://www.w3.org/2001/XMLSchema-instance}type')
                    ccls = classes.get(t.split(':')[-1]) if t else f.eType
                    if ccls is None:
                        continue
                    seg = f'/@{f.name}.{i}' if f.many else f'/@{f.name}'
                    walk(ch, ccls, (path if path != '/' else '/') + seg if path != '/' else '/' + seg, anc + [path])
            for k, t in enumerate(tops):
                cls = classes.get(etree.QName(t.tag).localname)
                if cls is not None:
                    walk(t, cls, '/' if len(tops) == 1 else f'/{k}', [])
            cand = [(e, cls, anc) for (e, cls, anc) in cand if conts(cls)]
            if not cand:
                break
            e, cls, anc = rng.choice(cand)
            f = rng.choice(conts(cls))
            e.attrib[f.name] = rng.choice(anc)
            out.append(etree.tostring(root, xml_declaration=True, encoding='UTF-8'))
    else:
        for _ in range(n):
            d = json.loads(doc.decode('utf-8'))
            tops = d if isinstance(d, list) else [d]
            cand = []

            def cls_of(o, declared):
                u = o.get('eClass')
                return classes.get(u.split('#//')[-1]) if u else declared

            def walk(o, cls, path, anc):
                if cls is None or '$ref' in o:
                    return
                cand.append((o, cls, anc + [path]))
                for f in conts(cls):
                    v = o.get(f.name)
                    if isinstance(v, list):
                        for i, ch in enumerate(v):
                            if isinstance(ch, dict):
                                walk(ch, cls_of(ch, f.eType), ('/' if path == '/' else path) + f'/@{f.name}.{i}', anc + [path])
                    elif isinstance(v, dict):
                        walk(v, cls_of(v, f.eType), ('/' if path == '/' else path) + f'/@{f.name}', anc + [path])
            for k, t in enumerate(tops):
                walk(t, cls_of(t, None), '/' if len(tops) == 1 else f'/{k}', [])
            cand = [(o, cls, anc) for (o, cls, anc) in cand if conts(cls)]
            if not cand:
                break
            o, cls, anc = rng.choice(cand)
            f = rng.choice(conts(cls))
            ref = {'$ref': rng.choice(anc)}
            if f.many:
                o.setdefault(f.name, [])
                if isinstance(o[f.name], list):
                    o[f.name].append(ref)
            else:
                o[f.name] = ref
            out.append(json.dumps(d).encode('utf-8'))
    return out


def snapshot(rset):
    from pyecore.resources import global_registry
    return (sorted((k, id(v)) for k, v in rset.resources.items()),
            sorted((k, id(v)) for k, v in rset.metamodel_registry.maps[0].items()),
            sorted((k, id(v)) for k, v in global_registry.items()))


def attempt(ctx, data, pk, tmp, fmt, label, h):
    """ask a resource set (that already holds another resource) for the document; judge the outcome"""
    from pyecore.resources import ResourceSet, URI
    rset = ResourceSet()
    rset.metamodel_registry[pk.nsURI] = pk
    keep = rset.create_resource(URI(os.path.join(tmp, f'keep.{fmt}')))       # a previously present resource
    path = os.path.join(tmp, f'doc.{fmt}')
    with open(path, 'wb') as fh:
        fh.write(data)
    before = snapshot(rset)
    signal.signal(signal.SIGALRM, _alarm)
    signal.alarm(10)
    res, raised = None, None
    try:
        res = rset.get_resource(URI(path))
    except Hang:
        raised = 'HANG'
    except RecursionError:
        raised = 'RecursionError'
    except Exception as e:
        raised = type(e).__name__
    finally:
        signal.alarm(0)
    ctx.evaluations += 1
    ctx.count(f'{fmt}/{label}/' + ('raised' if raised else 'loaded'))
    rep = {'case': h, 'format': fmt, 'kind': label, 'size': len(data), 'document': data.decode('utf-8', 'replace')[:3000]}
    if raised == 'HANG':
        ctx.violate({'clause': 'hang', 'format': fmt}, f'get_resource did not return within 10 s on a {label} {fmt} document', rep)
        return
    if raised:
        ctx.nontriv((h, fmt, label, len(data)))
        after = snapshot(rset)
        if after != before:
            what = 'resources' if after[0] != before[0] else ('metamodel registry' if after[1] != before[1] else 'global registry')
            ctx.violate({'clause': 'trace-after-failure', 'format': fmt, 'what': what},
                        f'after a failed load ({raised}) of a {label} {fmt} document the {what} changed: '
                        f'{[k for k, _ in after[0]]} vs {[k for k, _ in before[0]]}', rep)
        return
    # it loaded: the model must be well-formed, the resource registered once, and asking again returns it
    try:
        wf = wellformed(res.contents)
    except Exception as e:
        wf = f'inspecting the loaded model raised {type(e).__name__}'
    if wf:
        ctx.violate({'clause': 'loaded-not-wellformed', 'format': fmt}, f'a {label} {fmt} document loaded into an ill-formed model: {wf}', rep)
    else:
        # the documents refer to nothing outside themselves: neither does what they load into (an earlier, failed load
        # must not lend its objects to this one)
        try:
            inside, todo = set(), list(res.contents)
            while todo:
                o = todo.pop()
                inside.add(id(o))
                todo += list(o.eContents)
            stray = next((f'{o.eClass.name}.{f.name}' for r in res.contents for o in [r] + list(r.eAllContents())
                          for f in o.eClass.eAllReferences()
                          for v in (list(o.eGet(f)) if f.many else ([o.eGet(f)] if o.eGet(f) is not None else []))
                          if not hasattr(v, '_proxy_path') and id(v) not in inside), None)
        except Exception as e:
            stray = None
        # (a document that asks an object to contain itself or its ancestor gets what it asks for: the object leaves the
        # roots of the resource; what such a request has to load into is not specified beyond "the load ends")
        if stray and label != 'containment-cycle-request':
            ctx.violate({'clause': 'loaded-points-outside', 'format': fmt},
                        f'a {label} {fmt} document loaded into a model whose {stray} holds an object that is not part of it', rep)
    again = rset.get_resource(URI(path))
    if again is not res:
        ctx.violate({'clause': 'not-idempotent', 'format': fmt}, f'asking twice for the same URI returned two resources', rep)
    # the same file under the other spellings a path has (what a relative href joined to a directory looks like)
    d, b = os.path.split(path)
    for how, spelled in (('./', os.path.join(d, '.', b)), ('dir/../dir/', os.path.join(d, '..', os.path.basename(d), b)),
                         ('doubled separator', d + os.sep + os.sep + b), ('relative to the working directory', os.path.relpath(path))):
        try:
            again = rset.get_resource(URI(spelled))
        except Exception as e:
            again = f'raised {type(e).__name__}'
        ctx.count('asked-again/' + how)
        if again is not res:
            ctx.violate({'clause': 'not-idempotent', 'format': fmt, 'spelling': how},
                        f'asking for the same file again, spelled with {how}, returned {"another resource" if not isinstance(again, str) else again}', rep)
            break



def cross_case(ctx, h, tmp, fmt):
    """a previously loaded resource is not changed by a load that fails: document B refers into the already loaded resource
    A through references that have an opposite (single and many), and is corrupted *after* those references"""
    from pyecore import ecore as E
    from pyecore.resources import ResourceSet, URI
    from pyecore.resources.json import JsonResource
    rng = common.sub_rng(ctx.seed, 'C18', 'cross', h, fmt)
    pk = E.EPackage('cx', f'http://verif/cx{h}{fmt}', 'cx')
    N = E.EClass('N')
    pk.eClassifiers.append(N)
    N.eStructuralFeatures.append(E.EAttribute('name', E.EString))
    N.eStructuralFeatures.append(E.EAttribute('num', E.EInt))
    N.eStructuralFeatures.append(E.EReference('kids', N, upper=-1, containment=True))
    friend = E.EReference('friend', N)
    friend_of = E.EReference('friendOf', N, eOpposite=friend)
    pals = E.EReference('pals', N, upper=-1)
    pals_of = E.EReference('palsOf', N, upper=-1, eOpposite=pals)
    boss = E.EReference('boss', N)
    staff = E.EReference('staff', N, upper=-1, eOpposite=boss)
    N.eStructuralFeatures.extend([friend, friend_of, pals, pals_of, boss, staff])
    M = E.EClass('M')
    pk.eClassifiers.append(M)
    N.eStructuralFeatures.append(E.EReference('wrong', M))

    def rs():
        r = ResourceSet()
        r.resource_factory['json'] = lambda uri: JsonResource(uri)
        r.metamodel_registry[pk.nsURI] = pk
        return r
    d = os.path.join(tmp, f'cross{h}{fmt}')
    os.makedirs(d, exist_ok=True)
    pa, pb = os.path.join(d, f'a.{fmt}'), os.path.join(d, f'b.{fmt}')
    w = rs()
    ra, rb = w.create_resource(URI(pa)), w.create_resource(URI(pb))
    a0 = N(name='a0'); a1 = N(name='a1'); a0.kids.append(a1); ra.append(a0)
    b0 = N(name='b0'); b1 = N(name='b1'); b0.kids.append(b1); rb.append(b0)
    try:
        ra.save()          # A's file is written before B links to it: it does not mention B
    except Exception:
        ctx.count('cross/setup-raised'); return
    kinds = rng.sample(['friend', 'pals', 'boss', 'staff', 'friendOf'], rng.randint(1, 3))
    # the object whose references the loader resolves first carries the cross references; the failure sits on the other one
    first, second = (b0, b1) if fmt == 'xmi' else (b1, b0)
    for k in kinds:
        src, tgt = first, rng.choice([a0, a1])
        if N.findEStructuralFeature(k).many:
            src.eGet(k).append(tgt)
        else:
            src.eSet(k, tgt)
    b1.eSet('num', 5)
    try:
        rb.save()
    except Exception:
        ctx.count('cross/setup-raised'); return
    # A as it is on disk now (B's ends are in B's file only: A's file knows nothing of them)
    good = open(pb, 'rb').read().decode('utf-8')
    # corrupt late: a reference of the object that is resolved second names an object of the wrong class (or nothing)
    wrong = rng.choice(['/', '//@kids.99'])
    if fmt == 'xmi':
        bad = good.replace('num="5"', f'num="5" wrong="{wrong}"')
    else:
        import json as _json
        dd = _json.loads(good)
        dd['wrong'] = {'eClass': f'{pk.nsURI}#//M', '$ref': wrong if wrong == '/' else '/'}
        bad = _json.dumps(dd)
    if bad == good:
        return
    # a third of the XMI cases also *contain* an object of A through an href child element: the loader moves it the moment
    # the element is read (recorded finding F-C18-1)
    trigger = 'none'
    if fmt == 'xmi' and h % 3 == 2 and '</cx:N>' in bad:
        i = bad.rindex('</cx:N>')
        bad = bad[:i] + '  <kids href="a.xmi#//@kids.0"/>\n' + bad[i:]
        trigger = 'containment-href-into-loaded-resource'
    with open(pb, 'w') as fh:
        fh.write(bad)
    r2 = rs()
    try:
        A = r2.get_resource(URI(pa))
    except Exception:
        ctx.count('cross/setup-raised'); return

    def state():
        out = []
        for o in [A.contents[0]] + list(A.contents[0].eAllContents()):
            row = [o.name]
            for f in N.eAllStructuralFeatures():
                v = o.eGet(f)
                if f.is_attribute:
                    row.append((f.name, v))
                else:
                    vs = list(v) if f.many else ([v] if v is not None else [])
                    row.append((f.name, [getattr(x, '_proxy_path', None) or (getattr(x, 'name', None), id(x)) for x in vs]))
            out.append(row)
        return out
    before_state, before_keys = state(), sorted(r2.resources)
    raised = None
    try:
        r2.get_resource(URI(pb))
    except Exception as e:
        raised = type(e).__name__
    ctx.evaluations += 1
    ctx.count(f'cross/{fmt}/' + ('raised' if raised else 'loaded'))
    if not raised:
        return
    ctx.nontriv(('cross', h, fmt))
    rep = {'case': h, 'cross': True, 'format': fmt, 'references': kinds, 'document': bad[:2000]}
    if sorted(r2.resources) != before_keys:
        ctx.violate({'clause': 'trace-after-failure', 'format': fmt, 'what': 'resources'},
                    f'after a failed load ({raised}) the resource set holds {sorted(os.path.basename(k) for k in r2.resources)}', rep)
        return
    try:
        after_state = state()
    except Exception as e:
        ctx.violate({'clause': 'other-resource-changed', 'format': fmt, 'trigger': trigger},
                    f'after a failed load ({raised}) of b.{fmt}, reading the previously loaded a.{fmt} raises {type(e).__name__}: {str(e)[:100]}', rep)
        return
    if after_state != before_state:
        diff = next((a, b) for a, b in zip(before_state, after_state) if a != b)
        ctx.violate({'clause': 'other-resource-changed', 'format': fmt, 'trigger': trigger},
                    f'after a failed load ({raised}) of b.{fmt} an object of the previously loaded a.{fmt} changed: {diff[0]} -> {diff[1]}', rep)


def converter_case(ctx, k, tmp):
    """documents asked for through a URI that a registered converter rewrites (a plain string such as `models://m.xmi`
    mapped to a file): asking twice returns the same resource; a document that fails leaves no entry, whichever way the
    URI is spelled"""
    from pyecore import ecore as E
    from pyecore.resources import ResourceSet, URI, global_uri_converter, AbstractURIConverter
    rng = common.sub_rng(ctx.seed, 'C18', 'converter', k)
    d = os.path.join(tmp, f'conv{k}')
    os.makedirs(d, exist_ok=True)
    pk = E.EPackage('cv', f'http://verif/c18/cv{k}', 'cv')
    A = E.EClass('A')
    pk.eClassifiers.append(A)
    A.eStructuralFeatures.extend([E.EAttribute('name', E.EString), E.EReference('kids', A, upper=-1, containment=True)])
    root = A(name='r')
    root.kids.append(A(name='k'))
    w = ResourceSet()
    good = os.path.join(d, 'good.xmi')
    rg = w.create_resource(URI(good)); rg.append(root); rg.save()
    text = open(good).read()
    open(os.path.join(d, 'bad.xmi'), 'w').write(text.replace('name="k"', 'name="k" nosuch="1"'))

    class Conv(AbstractURIConverter):
        @staticmethod
        def can_handle(uri):
            return uri.protocol == 'models'

        @staticmethod
        def convert(uri):
            return URI(os.path.join(d, uri.plain[len('models://'):]))
    global_uri_converter.append(Conv)
    try:
        rset = ResourceSet()
        rset.metamodel_registry[pk.nsURI] = pk
        before = sorted(rset.resources)
        try:
            rset.get_resource('models://bad.xmi')
            ctx.count('converter/bad-loaded-anyway')
        except Exception:
            ctx.evaluations += 1
            if sorted(rset.resources) != before:
                ctx.violate({'clause': 'trace-after-failure', 'format': 'xmi', 'what': 'resources', 'converter': True},
                            f'after a failed load through a converted URI the resource set holds {sorted(rset.resources)}', {'case': k, 'kind': 'converter'})
                return
        spell = ['models://good.xmi', 'models://good.xmi', good, URI(good)]
        rng.shuffle(spell)
        got = []
        for sp_ in spell:
            got.append(rset.get_resource(sp_))
        ctx.evaluations += 1
        ctx.count('converter/asked-again')
        ctx.nontriv(('converter', k))
        if any(g is not got[0] for g in got) or len({id(r) for r in rset.resources.values()}) != 1:
            ctx.violate({'clause': 'not-idempotent', 'format': 'xmi', 'converter': True},
                        f'the same document asked for as {[str(x) if not isinstance(x, str) else x for x in spell]} (a converter maps models:// to its directory): '
                        f'{len({id(g) for g in got})} different resources returned, {len({id(r) for r in rset.resources.values()})} registered',
                        {'case': k, 'kind': 'converter'})
        # a third document refers to the good one under the converted spelling: once the reference is followed the resource
        # set knows the good document under that spelling too — one resource, two keys; taking the resource out of the set
        # (what a failed load does with its resource) leaves no key that still leads to it
        A.eStructuralFeatures.append(E.EReference('friend', A)) if not A.findEStructuralFeature('friend') else None
        open(os.path.join(d, 'ref.xmi'), 'w').write(text.replace('<kids name="k"/>', '<kids name="k"><friend href="models://good.xmi#//@kids.0"/></kids>'))
        try:
            rr = rset.get_resource(URI(os.path.join(d, 'ref.xmi')))
            tgt = rr.contents[0].kids[0].friend
            reached = tgt is not None and tgt.name == 'k'
        except Exception as e:
            reached = f'raised {type(e).__name__}'
        if reached is True:
            ctx.evaluations += 1
            ctx.count('converter/second-key')
            keys = [key for key, r in rset.resources.items() if r is got[0]]
            rset.remove_resource(got[0])
            left = [key for key, r in rset.resources.items() if r is got[0]]
            if left:
                ctx.violate({'clause': 'trace-after-failure', 'format': 'xmi', 'what': 'resources', 'converter': True},
                            f'a resource known to the set under {len(keys)} keys ({keys}) was taken out of it: {left} still lead to it',
                            {'case': k, 'kind': 'converter'})
    finally:
        global_uri_converter.remove(Conv)


def follow_failure_case(ctx, k, tmp):
    """a well-formed document refers into another one that is broken: following the reference fails and leaves no entry for
    the broken document — and nothing else either: once the other document has been repaired on disk, following the same
    reference of the same loaded model reaches its object (single and many, XMI and JSON)"""
    from pyecore import ecore as E
    from pyecore.resources import ResourceSet, URI
    from pyecore.resources.json import JsonResource
    rng = common.sub_rng(ctx.seed, 'C18', 'follow-failure', k)
    fmt = 'xmi' if k % 2 == 0 else 'json'
    d = os.path.join(tmp, f'ff{k}')
    os.makedirs(d, exist_ok=True)
    pk = E.EPackage('ff', f'http://verif/c18/ff{k}', 'ff')
    A = E.EClass('A')
    pk.eClassifiers.append(A)
    A.eStructuralFeatures.extend([E.EAttribute('name', E.EString), E.EReference('one', A), E.EReference('many', A, upper=-1),
                                  E.EReference('kids', A, upper=-1, containment=True)])

    def rs():
        r = ResourceSet()
        r.resource_factory['json'] = lambda uri: JsonResource(uri)
        r.metamodel_registry[pk.nsURI] = pk
        return r
    w = rs()
    pa, pb = os.path.join(d, f'a.{fmt}'), os.path.join(d, f'b.{fmt}')
    ra, rb = w.create_resource(URI(pa)), w.create_resource(URI(pb))
    a, b = A(name='a'), A(name='b')
    b.kids.extend([A(name='b0'), A(name='b1')])
    ra.append(a); rb.append(b)
    a.one = b.kids[1]
    a.many.extend([b, b.kids[0]])
    ra.save(); rb.save()
    good = open(pb, 'rb').read()
    cut = rng.randint(max(1, len(good) // 3), len(good) - 2)
    broken = good[:cut] if rng.random() < .6 else good.replace(b'name', b'nosuch', 1)
    open(pb, 'wb').write(broken)
    rset = rs()
    try:
        la = rset.get_resource(URI(pa)).contents[0]
    except Exception:
        ctx.count('follow-failure/holder-did-not-load')
        return
    which = rng.choice(['one', 'many'])
    first = None
    try:
        _ = (la.one if which == 'one' else la.many[0]).name
        ctx.count('follow-failure/broken-document-loaded-anyway')
        return
    except Exception as e:
        first = type(e).__name__
    ctx.evaluations += 1
    ctx.count(f'follow-failure/{fmt}/{which}')
    ctx.nontriv(('follow-failure', k))
    rep = {'case': k, 'kind': 'follow-failure', 'format': fmt}
    if any(os.path.basename(str(key)) == os.path.basename(pb) for key in rset.resources):
        ctx.violate({'clause': 'trace-after-failure', 'format': fmt, 'what': 'resources', 'followed': True},
                    f'following a reference into a broken {fmt} document failed ({first}) and left an entry for it: {sorted(map(str, rset.resources))}', rep)
        return
    open(pb, 'wb').write(good)
    try:
        got = (la.one.name, [x.name for x in la.many])
    except Exception as e:
        got = f'raised {type(e).__name__}: {str(e)[:60]}'
    if got != ('b1', ['b', 'b0']):
        ctx.violate({'clause': 'other-resource-changed', 'format': fmt, 'trigger': 'none', 'followed': True},
                    f'a loaded {fmt} model followed a reference into a broken document ({first}); the document was then repaired, and '
                    f'following the references of the same model gives {got}', rep)


def ecore_illtyped_case(ctx, k, tmp):
    """.ecore documents whose references name an element of the wrong kind — an `eOpposite` that names a class, an `eType`
    that names a feature, a supertype that names a feature: the load raises, or what it returns is typed as a metamodel is
    (the opposite of a reference is a reference or nothing, a type is a classifier, a supertype a class)"""
    from pyecore import ecore as E
    from pyecore.resources import ResourceSet, URI
    from . import c10
    rng = common.sub_rng(ctx.seed, 'C18', 'ecore-illtyped', k)
    pk = c10.gen_metamodel(rng, 7000 + k)
    d = os.path.join(tmp, f'illtyped{k}')
    os.makedirs(d, exist_ok=True)
    path = os.path.join(d, 'm.ecore')
    try:
        r = ResourceSet().create_resource(URI(path))
        r.append(pk)
        r.save()
        text = open(path).read()
    except Exception:
        ctx.count('ecore-illtyped/source-not-serializable')
        return
    classes = re.findall(r'<eClassifiers xsi:type="ecore:EClass" name="([^"]+)"', text)
    feats = re.findall(r'eOpposite="(#//[^"]+)"', text) + [f'#//{c}/nosuch' for c in classes[:1]]
    variants = []
    for m in re.finditer(r'eOpposite="#//([^"/]+)/[^"]+"', text):
        variants.append(('eOpposite names a class', text[:m.start()] + f'eOpposite="#//{m.group(1)}"' + text[m.end():]))
    for m in re.finditer(r'eType="#//([^"/]+)"', text):
        if feats:
            variants.append(('eType names a feature', text[:m.start()] + f'eType="{rng.choice(feats)}"' + text[m.end():]))
    for m in re.finditer(r'eSuperTypes="#//([^" /]+)', text):
        if feats:
            variants.append(('a supertype names a feature', text[:m.start()] + f'eSuperTypes="{rng.choice(feats)}' + text[m.end():]))
    rng.shuffle(variants)
    for label, doc in variants[:4]:
        open(path, 'w').write(doc)
        rset = ResourceSet()
        ctx.evaluations += 1
        try:
            res = rset.get_resource(URI(path))
        except Exception:
            ctx.count(f'ecore-illtyped/{label}/raised')
            if rset.resources:
                ctx.violate({'clause': 'trace-after-failure', 'format': 'ecore', 'what': 'resources'},
                            f'after a failed load of an .ecore document ({label}) the resource set holds {sorted(rset.resources)}',
                            {'case': k, 'kind': 'ecore-illtyped', 'label': label})
                return
            continue
        ctx.count(f'ecore-illtyped/{label}/loaded')
        ctx.nontriv(('ecore-illtyped', k, label))
        bad = None
        try:
            for e in [x for root in res.contents for x in [root] + list(root.eAllContents())]:
                if isinstance(e, E.EReference) and e.eOpposite is not None and not isinstance(e.eOpposite, E.EReference):
                    bad = f'the eOpposite of reference {e.name} is a {type(e.eOpposite).__name__}'
                elif isinstance(e, E.ETypedElement) and e.eType is not None and not isinstance(e.eType, (E.EClassifier, type)):
                    bad = f'the eType of {getattr(e, "name", "?")} is a {type(e.eType).__name__}'
                elif isinstance(e, E.EClass) and any(not isinstance(st, E.EClass) for st in e.eSuperTypes):
                    bad = f'a supertype of {e.name} is not a class'
                if bad:
                    break
        except Exception as ex:
            bad = f'inspecting the loaded metamodel raised {type(ex).__name__}'
        if bad:
            ctx.violate({'clause': 'loaded-not-wellformed', 'format': 'ecore'},
                        f'an .ecore document in which {label} loaded into an ill-typed metamodel: {bad}',
                        {'case': k, 'kind': 'ecore-illtyped', 'label': label})
            return


def ecore_opposite_case(ctx, k, tmp):
    """a metamodel file that fails to load after it has named, as the eOpposite of one of its references, a reference of an
    already loaded metamodel: the loaded one is left as it was (recorded finding F-C18-2: `eOpposite` is a Python property
    that sets the other end the moment it is assigned)"""
    from pyecore import ecore as E
    from pyecore.resources import ResourceSet, URI
    rng = common.sub_rng(ctx.seed, 'C18', 'ecore-opposite', k)
    d = os.path.join(tmp, f'eo{k}')
    os.makedirs(d, exist_ok=True)
    p = E.EPackage('pa', nsURI=f'http://verif/c18/pa{k}', nsPrefix='pa')
    A, B = E.EClass('A'), E.EClass('B')
    A.eStructuralFeatures.append(E.EReference('toB', B, upper=rng.choice([1, -1])))
    B.eStructuralFeatures.append(E.EReference('toA', A))
    p.eClassifiers.extend([A, B])
    r = ResourceSet().create_resource(URI(os.path.join(d, 'a.ecore')))
    r.append(p)
    r.save()
    broken = rng.choice(['eOpposite="#//C/nothing"', 'eType="#//Nowhere"', 'bogus="1"'])
    first = rng.random() < .5
    good = '<eStructuralFeatures xsi:type="ecore:EReference" name="r1" eType="#//C" eOpposite="a.ecore#//A/toB"/>'
    bad = ('<eStructuralFeatures xsi:type="ecore:EReference" name="r2" ' + ('' if broken.startswith('eType') else 'eType="#//C" ')
           + f'{broken}/>')
    open(os.path.join(d, 'b.ecore'), 'w').write(
        '<?xml version="1.0"?>\n<ecore:EPackage xmlns:xmi="http://www.omg.org/XMI" xmlns:xsi="http://www.w3.org/2001/XMLSchema-instance"\n'
        f' xmlns:ecore="http://www.eclipse.org/emf/2002/Ecore" xmi:version="2.0" name="pb" nsURI="http://verif/c18/pb{k}" nsPrefix="pb">\n'
        '  <eClassifiers xsi:type="ecore:EClass" name="C">\n    ' + (good + '\n    ' + bad if first else bad + '\n    ' + good) +
        '\n  </eClassifiers>\n</ecore:EPackage>\n')
    rset = ResourceSet()
    ra = rset.get_resource(URI(os.path.join(d, 'a.ecore')))
    toB = ra.contents[0].getEClassifier('A').findEStructuralFeature('toB')
    before = (toB.eOpposite, sorted(rset.resources), len(ra.contents[0].eClassifiers))
    try:
        rset.get_resource(URI(os.path.join(d, 'b.ecore')))
        ctx.count('ecore-opposite/loaded-anyway')
        return
    except Exception as e:
        raised = type(e).__name__
    ctx.evaluations += 1
    ctx.count('ecore-opposite/failed')
    ctx.nontriv(('ecore-opposite', k))
    after = (toB.eOpposite, sorted(rset.resources), len(ra.contents[0].eClassifiers))
    if after != before:
        what = 'A.toB.eOpposite now names a reference of the discarded document' if after[0] is not before[0] else 'the resource set changed'
        # (the recorded finding is the pairing that has already happened when a *later eOpposite* fails — the opposites are
        # set last, in document order; a failure of anything else comes before every pairing and must leave no trace)
        known = after[0] is not before[0] and broken.startswith('eOpposite') and first
        ctx.violate({'clause': 'other-resource-changed', 'format': 'ecore', 'trigger': 'eopposite-href-into-loaded-metamodel'
                     if known else 'none', 'failure': broken.split('=')[0]},
                    f'after a failed load ({raised}, the document breaks at {broken}) of a metamodel that names a reference of a loaded metamodel as an eOpposite: {what}',
                    {'case': k, 'format': 'ecore', 'kind': 'ecore-opposite'})


def schema_case(ctx, h, tmp, ncorr):
    """the metamodel is not registered: the document names it through xsi:schemaLocation (an .ecore file next to it).  A
    corrupted document of this kind must leave the registries as they were, too"""
    from pyecore.resources import ResourceSet, URI, global_registry
    rng = common.sub_rng(ctx.seed, 'C18', 'schema', h)
    sub = os.path.join(tmp, f'schema{h}')
    os.makedirs(sub, exist_ok=True)
    try:
        doc, pk = make_document(rng, h, sub, 'xmi')
        rs = ResourceSet()
        r = rs.create_resource(URI(os.path.join(sub, 'mm.ecore')))
        r.append(pk)
        r.save()
        r.remove(pk)
    except Exception:
        ctx.count('schema/source-not-serializable')
        return
    text = doc.decode('utf-8')
    m = re.search(r'<([A-Za-z_][\w.-]*:[A-Za-z_][\w.-]*)', text)
    if not m:
        return
    head = m.end()
    extra = f' xsi:schemaLocation="{pk.nsURI} mm.ecore"'
    if 'xmlns:xsi=' not in text:
        extra += ' xmlns:xsi="http://www.w3.org/2001/XMLSchema-instance"'
    good = (text[:head] + extra + text[head:]).encode('utf-8')
    path = os.path.join(sub, 'doc.xmi')
    for label, data in [('valid', good)] + [('corrupted', b) for b in corruptions(rng, good, 'xmi', ncorr)]:
        with open(path, 'wb') as fh:
            fh.write(data)
        rset = ResourceSet()
        keep = rset.create_resource(URI(os.path.join(sub, 'keep.xmi')))
        before_reg = sorted((k, id(v)) for k, v in rset.metamodel_registry.maps[0].items())
        before_glob = sorted((k, id(v)) for k, v in global_registry.items())
        before_res = {k: id(v) for k, v in rset.resources.items()}
        signal.signal(signal.SIGALRM, _alarm)
        signal.alarm(10)
        raised = None
        try:
            rset.get_resource(URI(path))
        except Hang:
            raised = 'HANG'
        except RecursionError:
            raised = 'RecursionError'
        except Exception as e:
            raised = type(e).__name__
        finally:
            signal.alarm(0)
        ctx.evaluations += 1
        ctx.count(f'schema/{label}/' + ('raised' if raised else 'loaded'))
        rep = {'case': h, 'format': 'xmi', 'kind': 'schemaLocation-' + label, 'document': data.decode('utf-8', 'replace')[:3000]}
        if raised == 'HANG':
            ctx.violate({'clause': 'hang', 'format': 'xmi'}, 'get_resource did not return within 10 s on a document with xsi:schemaLocation', rep)
            continue
        if not raised:
            continue
        ctx.nontriv((h, 'schema', len(data), hash(data) % 9973))
        what = None
        if sorted((k, id(v)) for k, v in rset.metamodel_registry.maps[0].items()) != before_reg:
            what = 'metamodel registry of the resource set'
        elif sorted((k, id(v)) for k, v in global_registry.items()) != before_glob:
            what = 'global registry'
        elif URI(path).normalize() in rset.resources or any(rset.resources.get(k) is None or id(rset.resources[k]) != v for k, v in before_res.items()):
            what = 'resources'
        if what:
            ctx.violate({'clause': 'trace-after-failure', 'format': 'xmi', 'what': what},
                        f'after a failed load ({raised}) of a document whose metamodel is named by xsi:schemaLocation only, the {what} changed', rep)


def run_case(ctx, h, tmp, nprefix, ncorr):
    rng = common.sub_rng(ctx.seed, 'C18', h)
    fmt = 'xmi' if h % 2 == 0 else 'json'
    try:
        doc, pk = make_document(rng, h, tmp, fmt)
    except Exception:
        ctx.count(f'{fmt}/source-model-not-serializable')
        return
    attempt(ctx, doc, pk, tmp, fmt, 'valid', h)
    cuts = range(len(doc)) if len(doc) <= nprefix else sorted(rng.sample(range(len(doc)), nprefix))
    for c in cuts:
        attempt(ctx, doc[:c], pk, tmp, fmt, 'prefix', h)
    for bad in corruptions(rng, doc, fmt, ncorr):
        attempt(ctx, bad, pk, tmp, fmt, 'corrupted', h)
    for bad in cycle_requests(rng, doc, fmt, pk, 2):
        attempt(ctx, bad, pk, tmp, fmt, 'containment-cycle-request', h)
    attempt(ctx, doc, pk, tmp, fmt, 'valid-after-the-failures', h)
    if h < 2:
        ctx.sample({'case': h, 'format': fmt, 'bytes': len(doc), 'document_head': doc.decode('utf-8')[:300]})


def run(ctx):
    common.use_repo()
    n = 14 if ctx.quick() else 300
    nprefix = 400 if ctx.quick() else 2000
    ncorr = 120 if ctx.quick() else 600
    ctx.rule = (f'{n} valid XMI/JSON documents saved from generated models; for each: every byte prefix (sampled to {nprefix} above '
                f'that size) and {ncorr} single-token corruptions (reversed names, removed/duplicated tokens, a word of a blank-separated reference list given twice, broken references, containment features made to name an ancestor, a document referring through bidirectional references into an already loaded resource and failing afterwards (that resource must not change), '
                'structural characters), each asked from a resource set that already holds another resource, under a 10 s watchdog; '
                'oracle: raises or yields a model satisfying C01-C03; after a failure resources / metamodel registry / global '
                'registry are exactly as before; a second get_resource returns the same resource. non-trivial & distinct = '
                'attempts that raised')
    tmp = tempfile.mkdtemp(prefix='verif_c18_')
    try:
        for h in range(n):
            run_case(ctx, h, tmp, nprefix, ncorr)
            cross_case(ctx, h, tmp, 'xmi' if h % 2 == 0 else 'json')
            cross_case(ctx, h, tmp, 'json' if h % 2 == 0 else 'xmi')
            schema_case(ctx, h, tmp, max(10, ncorr // 4))
            if h < 12:
                ecore_opposite_case(ctx, h, tmp)
                converter_case(ctx, h, tmp)
                ecore_illtyped_case(ctx, h, tmp)
                follow_failure_case(ctx, h, tmp)
    finally:
        shutil.rmtree(tmp, ignore_errors=True)
    ctx.assumptions += ['termination of lxml / json parsing itself is trusted (watchdog only)',
                        'documents are produced by the real save from generated models; corruptions are single-token']


def search(ctx):
    pass


def replay(ctx, data):
    common.use_repo()
    r = data['replay']
    print('  ', data['what'])
    print('  document:', r.get('document', '')[:600])
    return 1
